#!/bin/bash
# usage: seedverify.sh <seed-dir> <demo-dest-relative-path> <go test package> <run regex> [extra test pkgs...]
# Confirms in a scratch worktree of /repo HEAD: patch applies, builds, package tests pass, demo fails with patch, passes without.
. /verif/env.sh
seed=$1; dest=$2; pkg=$3; run=$4; shift 4
wt=/tmp/wt/verify.$$
git -C /repo worktree add -q --detach $wt HEAD || exit 9
trap "git -C /repo worktree remove --force $wt" EXIT
cd $wt
cp $seed/demo_test.go $dest
if go test -vet=off -count=1 -run "$run" $pkg >/tmp/sv.$$.1 2>&1; then echo "demo passes on unpatched tree: OK"; else echo "demo FAILS on unpatched tree: BAD"; tail -20 /tmp/sv.$$.1; fi
rm $dest
git apply -3 $seed/patch.diff 2>/dev/null || { echo "patch does not apply: BAD"; exit 1; }
go build ./... || { echo "build fails: BAD"; exit 1; }
if go test -vet=off -count=1 -timeout 90m $pkg "$@" >/tmp/sv.$$.2 2>&1; then echo "existing tests pass with patch: OK"; else echo "existing tests FAIL with patch: BAD"; grep -v "^ok" /tmp/sv.$$.2 | tail; fi
cp $seed/demo_test.go $dest
if go test -vet=off -count=1 -run "$run" $pkg >/tmp/sv.$$.3 2>&1; then echo "demo passes with patch: BAD"; else echo "demo fails with patch: OK"; fi
rm -f /tmp/sv.$$.*
