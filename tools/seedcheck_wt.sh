#!/bin/bash
# usage: seedcheck_wt.sh <abs patch.diff> <property-id> [tier]
# Like seedcheck.sh, but applies the patch in a scratch worktree of /repo HEAD and points the
# checks at it with VERIF_REPO, so /repo itself stays untouched (several can run side by side).
patch=$1; id=$2; tier=${3:-quick}
wt=/tmp/wt/seedrun.$$
git -C /repo worktree add -q --detach $wt HEAD || exit 9
out=/tmp/seedout.$$; mkdir -p $out
trap "git -C /repo worktree remove --force $wt; rm -rf $out" EXIT
git -C $wt apply -3 $patch 2>/dev/null || { echo "patch does not apply"; exit 9; }
# the engine links parts of the code under test (go/ir, pattern parser, runner): build it against the worktree
. /verif/env.sh
sed "s|=> /repo|=> $wt|" /verif/engine/go.mod > $out/go.mod; cp /verif/engine/go.sum $out/go.sum
(cd /verif/engine && go build -modfile=$out/go.mod -o $out/gose ./cmd/gose) || { echo "engine build failed"; exit 9; }
VERIF_REPO=$wt VERIF_OUT=$out $out/gose check $id $tier > /tmp/seedcheck.$$.out 2>&1; rc=$?
grep -E "^(VIOLATION|KNOWN-FINDING|TOOL-FAILURE|UNCONFIRMED|  )" /tmp/seedcheck.$$.out | cut -c1-300 | head -12
echo "exit=$rc"; rm -f /tmp/seedcheck.$$.out
