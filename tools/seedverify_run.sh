#!/bin/bash
# usage: seedverify_run.sh <seed-dir> <runner (relative to seed dir, takes worktree as $1)> <test pkgs...>
# For seeds whose demonstration is a script taking the worktree as argument.
. /verif/env.sh
seed=$1; runner=$2; shift 2
wt=/tmp/wt/verify.$$
git -C /repo worktree add -q --detach $wt HEAD || exit 9
trap "git -C /repo worktree remove --force $wt" EXIT
if sh $seed/$runner $wt >/tmp/svr.$$.1 2>&1; then echo "demo passes on unpatched tree: OK"; else echo "demo FAILS on unpatched tree: BAD"; tail -5 /tmp/svr.$$.1; fi
(cd $wt && git apply -3 $seed/patch.diff 2>/dev/null) || { echo "patch does not apply: BAD"; exit 1; }
(cd $wt && go build ./...) || { echo "build fails: BAD"; exit 1; }
if (cd $wt && go test -vet=off -count=1 "$@" >/tmp/svr.$$.2 2>&1); then echo "existing tests pass with patch: OK"; else echo "existing tests FAIL with patch: BAD"; grep -v "^ok" /tmp/svr.$$.2 | tail; fi
if sh $seed/$runner $wt >/tmp/svr.$$.3 2>&1; then echo "demo passes with patch: BAD"; else echo "demo fails with patch: OK"; fi
rm -f /tmp/svr.$$.*
