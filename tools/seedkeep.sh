#!/bin/bash
# usage: seedkeep.sh <seed-name> <property> <demo-dest> <demo-cmd> <needs> <caught-by>
name=$1; prop=$2; dest=$3; cmd=$4; needs=$5; caught=$6
d=/verif/seeded/$name; mkdir -p $d
cp /tmp/seed/$name/patch.diff $d/patch.diff
cp /tmp/seed/$name/demo_test.go $d/demo_test.go 2>/dev/null
cp /tmp/seed/$name/README.md $d/README.md 2>/dev/null
python3 - "$d" "$prop" "$dest" "$cmd" "$needs" "$caught" <<'PY'
import json,sys
d,prop,dest,cmd,needs,caught=sys.argv[1:7]
json.dump({"property":prop,"patch":"patch.diff","demo":"demo_test.go","demo_placement":dest,"demo_cmd":cmd,
 "needs_to_manifest":needs,
 "confirmed":"tools/seedverify.sh in a scratch worktree of /repo HEAD: patch applies (git apply -3), go build ./... ok, existing tests of the touched packages pass, demo passes without and fails with the patch",
 "check_result":caught}, open(d+"/meta.json","w"), indent=1)
PY
