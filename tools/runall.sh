#!/bin/bash
# usage: tools/runall.sh <tier> [ids...]; summary to .work/runall_<tier>.log
tier=${1:-quick}; shift
ids=${@:-C01 C02 C04 C05 C08 C09 C10 C11 C12 C13 C14 C15 C16 C17 C19 C20}
mkdir -p /verif/.work/logs
for id in $ids; do
  s=$(date +%s)
  timeout 7200 /verif/check $id $tier > /verif/.work/logs/${id}_$tier.log 2>&1
  rc=$?
  e=$(date +%s)
  echo "$id $tier rc=$rc wall=$((e-s))s viol=$(grep -c '^VIOLATION' /verif/.work/logs/${id}_$tier.log) known=$(grep -c '^KNOWN-FINDING' /verif/.work/logs/${id}_$tier.log)"
done
