#!/bin/bash
# usage: seedcheck.sh <patch.diff> <property-id> [tier]
# Applies the patch to /repo, runs the check, reverts. Prints the verdict lines.
patch=$1; id=$2; tier=${3:-quick}
cd /repo && git diff --quiet || { echo "/repo dirty"; exit 9; }
git -C /repo apply -3 $patch 2>/dev/null || { echo "patch does not apply"; exit 9; }
/verif/check $id $tier > /tmp/seedcheck.$$.out 2>&1; rc=$?
git -C /repo reset -q --hard HEAD; git -C /repo clean -fdq
grep -E "^(VIOLATION|KNOWN-FINDING|TOOL-FAILURE|UNCONFIRMED|  )" /tmp/seedcheck.$$.out | cut -c1-300 | head -12
echo "exit=$rc"; rm -f /tmp/seedcheck.$$.out
