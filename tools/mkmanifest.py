#!/usr/bin/env python3
"""Regenerates /verif/MANIFEST.json from the table below (kept in one place so the file stays valid)."""
import json, sys

CHECKS = {
 "C19": dict(
   level="model_checking",
   text="Bounded symbolic execution of the real code from go/ssa built from the working tree. optimize half: optimize/pad/offsetsof/align/sort.Sort for every vector of n<=3 fields "
        "with symbolic sizes (k*align, k<2^24; the last field may be a size-1 padded zero-size field) and alignments {1,2,4,8}: permutation, valid gap-free aligned layout, not larger than the input order; the default mode (combine, then optimize) on 2-3 top-level fields without nesting. "
        "structlayout half: gcsizes.Sizeof/Alignof/Offsetsof against go/types' own gc sizes (executed by the same engine) on every struct skeleton of 0-3 fields over 12 basic kinds, pointer, slice, interface, "
        "arrays with symbolic length (<2^16), nested/empty/named structs; and cmd/structlayout.sizes(): the reported fields tile [0, Sizeof) without gaps or overlaps, incl. nesting depth 2 at non-zero offsets.",
   note="Bounds as stated; skeletons are enumerated by forking, sizes/lengths are symbolic. Reference for 'the compiler' is go/types SizesFor(gc, amd64) (trusted; spot-checked against unsafe.Sizeof). "
        "Only amd64 (ForArch is replaced by its amd64 value in the symbolic run). Trusted: go/packages+go/ssa front-end, z3/cvc5, GoSE (conformance-checked against the native build each run).",
   technique="bounded symbolic execution of go/ssa + SMT (z3/cvc5), native replay of models",
   design="3/C19"),

 "C20": dict(
   level="model_checking",
   text="Bounded symbolic execution of the real report.Report (all four version-bound options), code.LanguageVersion, code.StdlibVersion and go/version.Compare: "
        "module version, file //go:build version (absent/present), file language version and the bound are go1.N strings with symbolic decimal digits (0..99); "
        "for each bound kind the solver decides on every path that the problem is reported iff the documented interval predicate holds; "
        "two consecutive reports (bounds never carry over; sync.Pool modelled as a LIFO) and one report with two bounds of different kinds (conjunction); "
        "chain: the -go flag (versionFlag.Set), loader.Load/loadFromSource, the file's //go:build line through go/parser, go/types' file versions, code.*Version and Report executed end to end for flag / module / file versions at the thresholds {1.9, 1.20, 1.21, 1.22, 1.26}.",
   note="Kernel harnesses take types.Info.FileVersions and types.Package.GoVersion as inputs; their derivation from -go / go.mod / build constraints is covered by the chain harness at the listed thresholds only. SA1019's and other checks' own use of the version helpers is outside. "
        "Versions without patch/pre-release suffix. Trusted: go/ssa front-end, z3/cvc5, GoSE (conformance-checked against the native build each run).",
   technique="bounded symbolic execution of go/ssa + SMT (z3/cvc5), native replay of models",
   design="3/C20"),
 "C12": dict(
   level="model_checking",
   text="Symbolic execution of the real runFromLintResult, mergeRuns, printDiagnostics (real pdqsort via sort.Slice, de-dup, build-name union) and text formatter for up to 3 runs, "
        "2 files and 2 problems that differ in exactly one descriptor field; run/problem membership, checked-file sets, merge strategies, build names, transpositions and the repeated run "
        "are enumerated by forking with every fork decided by the solver; asserted: any/all semantics, exact build-name sets, invariance under adjacent transpositions, idempotence; the same problem from two named builds with different severities in both orders; "
        "the result loop of the real (*linter).lint (runner stubbed): checked files are those of the analysed packages, problems carry their check's merge strategy.",
   note="The space is finite and explored exhaustively within the bound (the solver's part is branch feasibility over boolean/choice inputs). Outside: gob encoding, -matrix orchestration, >3 runs. "
        "Observed through the text formatter (End is not printed).",
   technique="bounded symbolic execution of go/ssa + SMT feasibility, native replay of models",
   design="3/C12"),
 "C13": dict(
   level="model_checking",
   text="Lattice laws: the real nilness lattice (merge table read with symbolic indices, kept on one path as ite chains), DenseMapLattice and MapLattice are executed symbolically over all triples "
        "(elements symbolic; slice lengths / key presence enumerated) and the solver decides associativity, commutativity, idempotence, identity, and agreement of Merge/Equals with the pointwise model. "
        "dense.Forward: whole runs of the real solver (worklist, heap, graph.Compact/ReversePostorder, In/Edge accessors) on every directed graph with 2 nodes (self-loops, 2-bit facts) and 3 nodes "
        "(1-bit facts, gen-only and gen/kill transfer with symbolic coefficients, symbolic entry facts); the solver decides the fixpoint equations and leastness against an arbitrary symbolic pre-fixpoint. "
        "sparse.Forward: whole runs on every def-use graph of 2 (thorough 3) ir.BinOp/ir.Phi instructions in every order with symbolic gen/mask transfer and parameter states: phi = merge of edges, value = transfer of operands, leastness.",
   note="Bounds: graphs <= 3 nodes (self-loops at N=3 only in thorough), facts <= 2 bits, monotone gen/kill transfer functions; sparse graphs <= 3 instructions over 2 parameters. "
        "Graph shape is enumerated by forking; data-dependent worklist behaviour forks on fact comparisons.",
   technique="bounded symbolic execution of go/ssa + SMT (z3/cvc5), native replay of models",
   design="3/C13"),
 "C14": dict(
   level="model_checking",
   text="The real buildDomTree (Lengauer-Tarjan), numberDomTree, Dominates, Idom, Dominees, DomPreorder and DomPostorder are executed on every CFG with 3 and 4 blocks (and 3 blocks + a recover block); "
        "the queried ordered pair (a,b) is symbolic, so one solver query per graph decides Dominates(a,b) == (every path from the region root to b passes through a) for all pairs; "
        "idom/dominee/pre/post-order consistency is asserted against the same path-search definition.",
   note="Graph shapes are enumerated by forking (each fork solver-checked); thorough adds 5 blocks with out-degree <= 2. Precondition assumed: all blocks reachable from entry or recover, "
        "recover region disjoint. Clause (b): for every function of the IR corpus / generated programs / selected repository packages (naive and lifted, <= 16 blocks quick, 40 thorough) the real Dominates/Idom "
        "are compared with bounded path-existence SMT queries for every ordered block pair.",
   technique="bounded symbolic execution of go/ssa + SMT (symbolic query pair), native replay of models",
   design="3/C14"),
 "C17": dict(
   level="model_checking",
   text="Graph level: the real SerializedGraph.Results / colorAndQuieten / color / Merge are executed on every graph with a root and 3 objects (uses arbitrary, owns acyclic), under all node numberings, "
        "all orders of the merged node list and a repeated merge; asserted: verdict = reachability over uses, quiet = transitively owned by an unused object, exactly-one-verdict partition, "
        "invariance under renumbering/reordering/repetition, and monotonicity under an added reference from used code. "
        "Variant merge: the real (*linter).lint with the runner stubbed out, 2 packages in 2+1 / 2+2 variants with symbolic object listings (line, name, file base, ObjectPath package, used/unused/absent, U1000 enabled): "
        "the U1000 diagnostics are exactly the unused listings of objects that no variant of the same package lists as used (positions optionally remapped as by //line). "
        "Source level: a 23-declaration package skeleton (structs with embedding and an embedding diamond, two interfaces with a same-named method, methods, generics, alias, var, const) with reference forms chosen per slot is parsed and type-checked "
        "by the real go/parser and go/types inside the engine and analysed by the real graph construction (newGraph, graph.entry) and Results: verdicts are equal under every move of one declaration to another position, every split into two files in both file orders, "
        "exchange of two fields in a struct, repetition and reloading; an added reference in used code never makes a used object unused.",
   note="Finite space explored exhaustively within the bound by forking (solver decides feasibility). Outside: construction of the graph from syntax (file/declaration order), everything upstream of the runner's per-variant results (loading, analysis, gob), graphs > 3 objects, > 2 listings per variant.",
   technique="bounded symbolic execution of go/ssa + SMT feasibility, native replay of models",
   design="3/C17"),
 "C10": dict(
   level="model_checking",
   text="Kernel: the real filterIgnored / couldHaveMatched / parseDirectives / lineIgnore.match / fileIgnore.match (with strings.ToLower and filepath.Match interpreted) are executed on every combination of "
        "1 problem x 1 directive (70 check lists incl. globs with *, ? and [...], wrong case, U1000, disabled and unknown checks; 3 reason shapes; enabled/disabled analyzers) and 2 problems x 1-2 directives in both orders; "
        "asserted against the property's predicate: suppressed set, pass-through of everything else in order, malformed-directive errors, useless-directive reports, directive diagnostics never suppressed. "
        "Attachment: 11 placements of a //lint:ignore comment run through the real go/parser, ast.NewCommentMap / lint.ParseDirectives and the runner's serializeDirective inside the engine, the problem on every line of the file. U1000 clause: on the generated package skeleton, //lint:ignore U1000 above a function / variable / constant gives every object the verdict it has when used code refers to the ignored object (real parser, type checker, ParseDirectives and unused graph in the engine).",
   note="Finite vocabulary explored exhaustively by forking (solver decides feasibility). Outside: comment placements other than the 11 listed, //line-remapped positions, U1000 ignores on types, whitespace-only reasons, globs in the useless-directive clause. "
        "One known finding (order-dependence of couldHaveMatched around U1000) is listed in known_findings.txt.",
   technique="bounded symbolic execution of go/ssa + SMT feasibility, native replay of models",
   design="3/C10"),
 "C11": dict(
   level="model_checking",
   text="Kernel: the real filterAnalyzerNames (lists of 1-2, thorough 3, tokens from 21), config.mergeConfigs / Config.Merge / mergeLists / normalizeList (default + 2-3 staticcheck.conf levels + -checks, with inherit) and "
        "Command.printDiagnostics with list.Set and the text formatter (2 problems x -fail lists x text|null|sarif) are executed symbolically and compared with an independent left-to-right evaluator of the documented algebra and exit rule; "
        "the result loop of the real (*linter).lint with the runner stubbed (2-3 results, failed / initial / skipped symbolic): errors of failed packages are reported whether or not the package was named, problems come from exactly the analysed packages; text and stylish formatters print the same problems (2-3 problems with and without positions).",
   note="Finite vocabulary explored exhaustively by forking. Outside: directory walk and TOML decoding (parseConfigs), rendering of JSON/SARIF (encoding/json is outside the engine's reflect model; sarifFormatter.Format has an empty body in the symbolic run), the byte layout of stylish output, -show-ignored.",
   technique="bounded symbolic execution of go/ssa + SMT feasibility, native replay of models",
   design="3/C11"),
 "C02": dict(
   level="model_checking",
   text="IR is built natively by go/ir from /repo for a hand-written corpus (~230 functions), a bounded-exhaustive family of generated programs (escapes, loops, break/continue/goto, early returns), 200 sampled goto-built CFGs and selected repository packages (thorough: more packages and a std subset), "
        "in 5 builder modes. Per function (<= 24 blocks quick, 28 thorough): dominance is decided by bounded path-existence SMT queries for every ordered block pair, def-dominates-use (incl. phi edges at the end of the "
        "predecessor) is read off that relation; operand/result typing is decided by the solver's sort checker over an encoding with one sort per Go type and one typed function per instruction rule (arithmetic, comparison, load/store, phi, return, field, index, map lookup/update, send, extract, closure bindings, calls), further documented rules are checked directly (MakeSlice, Slice, ChangeType, MakeInterface, TypeAssert, Alloc); "
        "terminator/phi-arity/pred-succ/operand-referrer clauses are checked as preconditions of the encoding.",
   note="Programs: corpus + generator + selected packages (thorough: more repository packages and a std subset, same generated family), not all type-correct packages. Typing relaxations calibrated on the pinned tree: comparison operands may be "
        "mutually assignable; operands involving type parameters skipped. Entry-block definitions count as available in the recover region. All modes build serially (parallel building is C18, n/a).",
   technique="SMT path-existence queries + solver sort checking over natively built IR",
   design="3/C02"),
 "C01": dict(
   level="translation_validation",
   text="go/ir builds IR natively (naive, lifted, each with and without debug refs) for a hand-written corpus and a bounded-exhaustive family of generated programs; every function's IR is rendered back into Go "
        "according to the documented meaning of each instruction (labelled blocks, one variable per value, parallel phi copies on edges) and executed by the symbolic engine next to the source function "
        "on the same symbolic inputs: results, panic/no-panic outcome, stores through pointer arguments and the trace of opaque calls must agree on every path (solver-decided assertions).",
   note="Programs: ~230 corpus functions + ~1700 generated (quick) functions (incl. 200 sampled goto-built CFGs with a fuel counter), not all programs. The recover block is rendered as code (the body runs in an inner closure; a panic raised while deferred calls run is detected by probes), not left to Go's own recovery. Reference for the source semantics is x/tools go/ssa in the same engine; counterexamples are replayed with gc-compiled code. "
        "Compositional (callees as in source). Loop-bound parameters restricted to -1..4, strings ASCII <= 2 bytes, slices <= 2 elements. Outside: goroutines, channels, select, map iteration, floats, unsafe; defers inside range-over-func bodies; method values/expressions; methods as subjects.",
   technique="translation validation: IR rendered to Go + bounded symbolic execution (go/ssa) + SMT, native replay",
   design="3/C01"),
 "C15": dict(
   level="model_checking",
   text="The real nilness analysis runs natively (through the repository's runner) over a corpus of ~100 functions covering the constructs in the property; for every exported fact that claims NeverNil/AlwaysNil "
        "(interface value or held value) a harness is generated and executed symbolically over go/ssa with inputs ranging over nil / fresh pointers, nil/empty/non-empty slices and maps, nil / typed-nil / non-nil interfaces, "
        "function values and integers; the claim is asserted at every normal return.",
   note="Programs: the corpus only. Methods skipped (facts are reported by bare name). Channels sequential (an operation that can never proceed ends the path without a normal return). The SA4023 clause follows from the facts and is not re-derived separately.",
   technique="bounded symbolic execution of go/ssa + SMT against natively computed facts, native replay",
   design="3/C15"),
 "C16": dict(
   level="translation_validation",
   text="The real S1xxx and QF1xxx analyzers run natively over a corpus of trigger shapes (every relational operator, negations, mixed && / ||, side-effecting operands, loops, switches); every suggested fix is applied to a copy of the "
        "enclosing function (edits in bounds, non-overlapping, result parses and type-checks: reported as violations otherwise) and the fixed function is executed symbolically next to the original on the same symbolic inputs: "
        "results, panic outcome, stores through arguments and the trace of opaque calls must agree on every path.",
   note="Behavioural and applies-cleanly clauses for the corpus only (~100 fixes of 25 checks); the position clauses (line/column exist, end after start) are not covered; for QF1009 (not an equivalent rewrite) only the applies-cleanly clauses. "
        "Fixed functions are compiled with an adjusted import list (the property allows that). Three fix defects found this way (S1033 on an else-if guard, QF1004 with a trailing comma, S1034 on a comma-ok assertion) were repaired in /repo. Checks whose triggers need time, net/http or regexp are not in the corpus.",
   technique="translation validation: real fixes applied + bounded symbolic execution (go/ssa) + SMT, native replay",
   design="3/C16"),
 "C09": dict(
   level="model_checking",
   text="The real Matcher (Match, match, matchNodeAST, matchAST, Binding/Or/Not/List/String/Token/Nil/Any, set/push/pop/merge; package reflect modelled by the engine) is executed on 17 patterns nesting Or, Not, List and "
        "Binding with repeated names and up to 34 (thorough 63) names, in both spellings, against 19 expression shapes with symbolic identifier names, literal values and operators; patterns are parsed by the real parser "
        "(natively, every run) and rebuilt as Go values including the unexported binding index. Oracle: a purely functional reference matcher; asserted: equal verdict, exactly the bindings of the successful path, "
        "structurally equal subtrees for repeated names, and equality of the x@p and (Binding \"x\" p) spellings; 6 patterns with Builtin / Object against 7 call expressions type-checked by the real go/types inside the engine.",
   note="Bounded to the listed patterns and tree shapes (leaves symbolic). Symbol is exercised under C08; IntegerLiteral, TrulyConstantExpression and statement-level nodes are outside. "
        "The package initialiser's MustParse is given an empty body in the symbolic run (only IntegerLiteral uses its result).",
   technique="bounded symbolic execution of go/ssa (reflect modelled) + SMT against a functional reference matcher, native replay",
   design="3/C09"),
 "C05": dict(
   level="model_checking",
   text="The real DiskCache code (Put/put/copyFile/putIndexEntry, get/Get, GetFile, GetBytes, fileName, used; encoding/hex, strconv, io interpreted) is executed over an in-memory file system in the engine for every scenario of "
        "1-2 stores over 2 keys (ids differing only in the last byte) and 3 contents, one fault from {writer dies at any offset of the copy, data file truncated to any shorter length / removed / trailing garbage, "
        "index entry truncated / removed / replaced by the other key's entry / trailing garbage}, optionally followed by a dying writer or a re-store, or preceded by lookups in the same process; every lookup (GetBytes, GetFile + read) must miss or return the bytes "
        "last stored completely under that key.",
   note="Scenario space enumerated by forking (solver decides feasibility); contents and ids are concrete choices so SHA-256 is the real function. Crash = source reader dying during the copy or the equivalent post-state; "
        "sequential single process: concurrent writers/readers/trimmers, arbitrary byte corruption of index entries (symbolic 176-byte entries) and the end-to-end linter clause are outside the claim.",
   technique="bounded symbolic execution of go/ssa over a modelled file system + SMT feasibility, native replay on a temp dir",
   design="3/C05"),
 "C04": dict(
   level="model_checking",
   text="Kernel (key completeness): the real (*subrunner).do is executed from entry to its first cache lookup (stopped by an injected cache.Cache), and the real loader.computeHash, on pairs of scenarios that differ in at most one "
        "documented key input (package hash, merged configuration minus Checks incl. the command-line merge, analyzer set, Go version, dependency paths and fact files; package path, export action id, file and go.mod contents, "
        "import paths and build ids); all strings/bytes are symbolic; SHA-256 is modelled as collision-free (equal digests <=> equal inputs); the solver decides that equal keys imply equal inputs, and that Checks does not influence the key.",
   note="The larger part of C04 (that the documented inputs are all that influences results; arbitrary histories of runs and edits) is outside the claim. Components are lower-case letters (unambiguous renderings); GODEBUG empty; "
        "build ids are supplied through the loader's own buildidCache.",
   technique="bounded symbolic execution of go/ssa + SMT with an axiomatised collision-free hash, native replay",
   design="3/C04"),
 "C08": dict(
   level="model_checking",
   text="Kernel of the pre-filter: (a) entry node kinds — 22 patterns (Or of wrapped alternatives, Not, nested Or, node-less bindings, lists, repeated names) are parsed by the real parser natively (EntryNodes taken from it), the real "
        "matcher runs in the engine on 16 expression shapes with symbolic leaves, and whenever it accepts a node the node's kind must be among the pattern's entry nodes; (b) symbol names — symbolToIndexSymbol is executed on "
        "fully symbolic names path.Ident / (path.Type).Ident / (*path.Type).Ident over 5 path shapes with dots and slashes and must recover path, type and identifier; "
        "(c) candidate enumeration — generated packages (4 import forms x 21 call / reference forms per site, 1 site quick, 2 thorough, two dependency packages) are parsed and type-checked by the real go/parser and go/types inside the engine, "
        "indexed by the real inspector and typeindex, and for 12 patterns with symbols the nodes code.Matches yields (CouldMatchAny, typeindex.Calls, typeutil.Callee, Symbol.Match) must be exactly the nodes the matcher accepts when tried on every syntax node.",
   note="(c) enumerates programs by forking (concrete source text per path); one finding is listed (a type symbol reached only through an alias declared in a third package). Outside: patterns with Object nodes, statement-level shapes in (a), "
        "packages beyond the generated family. Matches are compared after unwrapping the transparent wrappers Match itself unwraps.",
   technique="bounded symbolic execution of go/ssa (reflect modelled) + SMT, native replay",
   design="3/C08"),
}

CHECKS["C07"] = dict(
   level="model_checking",
   text="Every instance of the 23-declaration package skeleton with two (thorough three) slots ranging over 20 reference forms is parsed and type-checked by the real go/parser and go/types inside the engine and analysed by the real U1000 graph construction and Results; "
        "(a) every object reported (Unused) or owned by a reported object (Quiet) is deleted at declaration / field-line granularity and the remaining package is type-checked again by go/types in the engine: no error other than unused imports; "
        "(b) every unexported package-level func, type, var or const that no identifier refers to (types.Info.Uses) is among the reported objects.",
   note="Programs: the generated skeleton instances only (one package, no imports, cgo, build tags or tests), enumerated by forking (concrete source text per path; the type checker, not a solver, is the oracle for (a)). "
        "One finding is listed: a package-level variable that is only assigned (rule 9.7) is reported and its removal leaves the assignment undefined.",
   technique="bounded symbolic execution of go/ssa (go/parser, go/types and unused executed in the engine) + SMT feasibility, native replay",
   design="3/C07")

NA = {
 "C03": "totality of ~200 analyzers over all compilable packages needs symbolic programs flowing through go/packages, go/types and every analyzer; beyond a bounded SSA encoder (DESIGN 0)",
 "C06": "claim is about goroutine schedules and data races of the real runner; GoSE executes sequential Go only; the order-insensitive output stage is decided under C12",
 "C18": "schedule property of go/ir's parallel builder; no Go memory-model encoding available",
}
PENDING = "check under construction in this session (engine exists, harness not yet registered); will be claimed or given a concrete reason"

ALL = ["C%02d" % i for i in range(1, 21)]

def main():
    checks = []
    for pid in ALL:
        if pid not in CHECKS:
            continue
        c = CHECKS[pid]
        checks.append({
            "property_id": pid,
            "quick_cmd": "/verif/check %s quick" % pid,
            "thorough_cmd": "/verif/check %s thorough" % pid,
            "evidence_file": "/verif/evidence/%s.json" % pid,
            "replay_cmd_template": "cat {path}/violation.json {path}/native_output.txt",
            "engine": "gose",
            "level_claimed": {"category": c["level"], "text": c["text"], "design_ref": "DESIGN.md " + c["design"]},
            "level_note": c["note"],
            "technique": c["technique"],
        })
    na = []
    for pid in ALL:
        if pid in CHECKS:
            continue
        na.append({"property_id": pid, "reason": NA.get(pid, PENDING)})
    m = {
        "version": 1,
        "setup_cmd": ". /verif/env.sh && cd /verif/engine && go build -o /verif/bin/gose ./cmd/gose",
        "hooks": {
            "guard": "verif",
            "enable": "none needed: harnesses are injected as go/packages overlays (symbolic run) and `go test -overlay` files (native replay); nothing is written into /repo",
            "baseline_off_cmd": "cd /repo && go test -vet=off -count=1 -timeout 25m ./...",
            "source_commits": [],
            "add_only": True,
        },
        "engines": [{
            "name": "gose", "path": "/verif/engine",
            "serves_properties": sorted(CHECKS),
            "kind_free_text": "symbolic interpreter over golang.org/x/tools/go/ssa (built from /repo's working tree on every run) with SMT back ends z3 5.1 / z3 4.8.12 / cvc5 1.0; decision-prefix re-execution, native replay of solver models",
        }],
        "checks": checks,
        "not_applicable": na,
        "notes": "All checks are solver-based (bounded symbolic execution of the real code, or SMT queries over IR built natively from /repo). See DESIGN.md.",
    }
    json.dump(m, open("/verif/MANIFEST.json", "w"), indent=1)
    print("wrote MANIFEST.json with", len(checks), "checks,", len(na), "n/a")

main()
