# sourced by every /verif command: offline Go environment, go1.26.8 first in PATH
export PATH=/opt/veriftools/go1.26.8/bin:$PATH
export GOFLAGS=-mod=mod GOPROXY=off GOSUMDB=off GOTOOLCHAIN=local GONOSUMDB=* GONOSUMCHECK=1 GOFLAGS=-mod=mod
export CARGO_NET_OFFLINE=true PIP_NO_INDEX=1
