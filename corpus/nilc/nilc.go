// Package nilc is the program corpus for C15 (soundness of nilness facts):
// functions with pointer-like results built from nil checks, loads,
// allocations, conversions, slicing, appends, type assertions/switches,
// typed nils in interfaces, calls (static, dynamic, recursive), defer/recover.
// Systematic: each construct appears with operands that are known nil,
// known non-nil, and unknown.
package nilc

import "unsafe"

type T struct {
	V    int
	Next *T
}

type Source interface{ Get() *T }

type nilSource struct{}
type newSource struct{}
type fieldSource struct{ t *T }

func (nilSource) Get() *T    { return nil }
func (newSource) Get() *T    { return &T{} }
func (s fieldSource) Get() *T { return s.t }

type Stringer interface{ String() string }

func (t *T) String() string { return "T" }

// ---- allocations and constants ----

func New() *T             { return &T{} }
func Nil() *T             { return nil }
func NewSlice() []int     { return make([]int, 0) }
func NilSlice() []int     { return nil }
func Lit() []int          { return []int{1} }
func NewMap() map[int]int { return map[int]int{} }
func NilMap() map[int]int { return nil }
func Fn() func()          { return func() {} }
func NilFn() func()       { return nil }
func NewChan() chan int   { return make(chan int, 1) }

// ---- parameters and nil checks ----

func Id(p *T) *T { return p }

func OrNew(p *T) *T {
	if p == nil {
		return &T{}
	}
	return p
}

func OrNewFlipped(p *T) *T {
	if nil != p {
		return p
	}
	return new(T)
}

func NilIfNil(p *T) *T {
	if p != nil {
		return nil
	}
	return p
}

func CheckedThenOther(p, q *T) *T {
	if p != nil {
		return q
	}
	return &T{}
}

func AfterDeref(p *T) *T {
	_ = p.V // dereference: p is non-nil afterwards
	return p
}

func DerefOther(p, q *T) *T {
	_ = p.V
	return q
}

func LoadField(p *T) *T {
	if p == nil {
		return &T{}
	}
	return p.Next
}

func Either(c bool, p *T) *T {
	if c {
		return &T{}
	}
	return p
}

func BothNew(c bool) *T {
	if c {
		return &T{V: 1}
	}
	return &T{V: 2}
}

// ---- loops and phis ----

func Walk(p *T) *T {
	for p != nil && p.Next != nil {
		p = p.Next
	}
	return p
}

func LoopAssign(n int) *T {
	var p *T
	for i := 0; i < n && i < 3; i++ {
		p = &T{V: i}
	}
	return p
}

func LoopKeep(n int) *T {
	p := &T{}
	for i := 0; i < n && i < 3; i++ {
		if i == 1 {
			p = p.Next
		}
	}
	return p
}

// ---- slices: slicing and append ----

func SliceOf(xs []int) []int      { return xs[:0] }
func SliceFull(xs []int) []int    { return xs[:] }
func SliceOfNew() []int           { return make([]int, 4)[1:2] }
func SliceNilZero() []int         { var xs []int; return xs[0:0] }
func AppendNilNothing() []int     { var xs []int; return append(xs) }
func AppendNilOne() []int         { var xs []int; return append(xs, 1) }
func AppendNilEmpty() []int       { var xs []int; return append(xs, []int{}...) }
func AppendNilMake() []byte       { var b []byte; return append(b, make([]byte, 0)...) }
func AppendNilNil() []int         { var xs []int; return append(xs, []int(nil)...) }
func AppendParam(xs []int) []int  { return append(xs, 1) }
func AppendParamSpread(xs, ys []int) []int { return append(xs, ys...) }

func AppendInNilBranch(xs []int) []int {
	if xs == nil {
		return append(xs, []int{}...)
	}
	return xs
}

func AppendToNew(ys []int) []int { return append(make([]int, 0), ys...) }

// ---- maps, channels ----

func MapLookup(m map[int]*T) *T { return m[1] }

func MapLookupOk(m map[int]*T) *T {
	if v, ok := m[1]; ok {
		return v
	}
	return &T{}
}

func Recv(c chan *T) *T {
	select {
	case v := <-c:
		return v
	default:
		return &T{}
	}
}

// ---- interfaces: typed nils, Inner vs Outer ----

func IfaceNew() any        { return &T{} }
func IfaceNil() any        { return nil }
func IfaceTypedNil() any   { var p *T; return p }
func IfaceOf(p *T) any     { return p }
func IfaceInt() any        { return 5 }
func StringerOf(p *T) Stringer { return p }

func IfaceOrNew(p *T) any {
	if p == nil {
		return &T{}
	}
	return p
}

func IfacePass(x any) any { return x }

func IfaceChecked(x any) any {
	if x == nil {
		return 1
	}
	return x
}

// ---- type assertions and switches ----

func Assert(x any) *T { return x.(*T) }

func AssertOk(x any) *T {
	if p, ok := x.(*T); ok {
		return p
	}
	return &T{}
}

func AssertOkFail(x any) *T {
	p, ok := x.(*T)
	if !ok {
		return p // zero value: nil
	}
	return &T{}
}

func TypeSwitchTag(x any) any {
	switch v := x.(type) {
	case int:
		return v + 1
	default:
		_ = v
		return x
	}
}

func TypeSwitchNilCase(x any) any {
	switch v := x.(type) {
	case nil:
		return 0
	case *T:
		return v
	default:
		return x
	}
}

func TypeSwitchBind(x any) *T {
	switch v := x.(type) {
	case *T:
		return v
	case Source:
		return v.Get()
	}
	return &T{}
}

// ---- conversions, unsafe ----

type PT *T

func Convert(p *T) PT        { return PT(p) }
func ConvertNew() PT         { return PT(&T{}) }
func ToUnsafe(p *T) unsafe.Pointer { return unsafe.Pointer(p) }
func FromUintptr(u uintptr) unsafe.Pointer { return unsafe.Pointer(u) }
func NewUnsafe() unsafe.Pointer { return unsafe.Pointer(&T{}) }

// ---- calls: static, dynamic, interface methods, recursion ----

func CallNew() *T { return New() }
func CallNil() *T { return Nil() }
func CallId(p *T) *T { return Id(p) }
func CallOrNew(p *T) *T { return OrNew(p) }

func CallFunc(g func() *T, b bool) *T {
	if b {
		return &T{}
	}
	return g()
}

func CallFuncOnly(g func() *T) *T { return g() }

func CallMethod(src Source, b bool) any {
	if b {
		return &T{}
	}
	return src.Get()
}

func CallMethodPtr(src Source) *T { return src.Get() }

func Rec(n int, p *T) *T {
	if n <= 0 {
		return p
	}
	return Rec(n-1, &T{})
}

func RecNew(n int) *T {
	if n <= 0 {
		return &T{}
	}
	return RecNew(n - 1)
}

func Multi(p *T) (*T, *T) { return &T{}, p }

func UseMulti(p *T) *T {
	a, b := Multi(p)
	if a == nil {
		return b
	}
	return a
}

func UseMultiSecond(p *T) *T {
	_, b := Multi(p)
	return b
}

// ---- defer / recover with named results ----

func NamedDefault() (r *T) { return }

func NamedSet() (r *T) {
	r = &T{}
	return
}

func NamedDeferClear() (r *T) {
	defer func() { r = nil }()
	r = &T{}
	return r
}

func NamedRecover(p *T) (r *T) {
	defer func() {
		if recover() != nil {
			r = nil
		}
	}()
	r = &T{V: p.V}
	return r
}

// ---- closures ----

func Closure() *T {
	var p *T
	f := func() { p = &T{} }
	f()
	return p
}

func ClosureNoCall() *T {
	p := &T{}
	f := func() { p = nil }
	_ = f
	return p
}

// ---- select, loops whose header is its own latch, joins reached from one branch ----

func SelectTwo(a, b chan *T) chan *T {
	select {
	case <-a:
	case <-b:
	}
	return a
}

func SelectTwoOther(a, b chan *T) chan *T {
	select {
	case <-a:
		return b
	case <-b:
		return a
	}
}

func SelectOne(a chan *T) chan *T {
	select {
	case <-a:
	}
	return a
}

func SelectRecvValue(a, b chan *T) *T {
	select {
	case v := <-a:
		return v
	case v := <-b:
		if v == nil {
			return &T{}
		}
		return v
	}
}

func LoopSelf(n int) *T {
	p := &T{}
	i := 0
	for {
		i++
		if i >= n {
			break
		}
		p = p.Next
	}
	return p
}

func LoopSelfParam(p *T, n int) *T {
	if p == nil {
		p = &T{}
	}
	for {
		n--
		if n < 0 {
			break
		}
		p = p.Next
	}
	return p
}

func LoopTwoBlocks(n int) *T {
	p := &T{Next: &T{}}
	for i := 0; i < n; i++ {
		if p == nil {
			break
		}
		p = p.Next
	}
	return p
}

func Route(p, q, x *T, kind, sub int) *T {
	if q == nil {
		q = &T{}
	}
	q.V++
	r := p
	switch {
	case kind > 0:
		if kind > 2 {
			r = q
			if sub > 1 {
				break
			}
		}
		kind++
	default:
		r = q
	}
	_ = x
	return r
}

func Route4(p, q, x, y *T, kind, sub int) *T {
	if q == nil {
		q = &T{}
	}
	r := p
	switch {
	case kind > 0:
		if kind > 2 {
			r = q
			if sub > 1 {
				break
			}
		}
		kind++
	default:
		r = q
	}
	_, _ = x, y
	return r
}

func TwoJoins(p, q *T, a, b bool) (*T, *T) {
	if q == nil {
		q = &T{}
	}
	r, s := p, q
	if a {
		r = q
		if b {
			goto out
		}
		s = p
	}
	r = q
out:
	return r, s
}

func LoopOneBlock(p *T, n int) *T {
	if p == nil {
		p = &T{}
	}
	for {
		p = p.Next
		n--
		if n <= 0 {
			break
		}
	}
	return p
}

func LoopOneBlockNew(n int) *T {
	cur := &T{}
	var prev *T
	for {
		prev, cur = cur, prev
		n--
		if n <= 0 {
			break
		}
	}
	return cur
}

func RouteA(p, q, x *T, kind, sub int) *T {
	q.V++
	r := p
	switch {
	case kind > 0:
		if kind > 2 {
			r = q
			if sub > 1 {
				break
			}
		}
		kind++
	default:
		r = q
	}
	return r
}

func RouteB(p, q, x, y *T, kind, sub int) *T {
	q.V++
	r := p
	switch {
	case kind > 0:
		if kind > 2 {
			r = q
			if sub > 1 {
				break
			}
		}
		kind++
	default:
		r = q
	}
	return r
}

func RouteC(p, q *T, kind, sub int) *T {
	q.V++
	r := p
	switch {
	case kind > 0:
		if kind > 2 {
			r = q
			if sub > 1 {
				break
			}
		}
		kind++
	default:
		r = q
	}
	return r
}

// ---- arrays, array pointers, slice-to-array conversions ----

func SliceOfArray(n int) []int {
	var a [3]int
	a[0] = n
	return a[:0]
}

func SliceOfArrayPtr(p *[3]int) []int {
	return p[:]
}

func SliceOfArrayPtrZero(p *[3]int) []int {
	return p[0:0]
}

func SliceOfNewArrayPtr() []int {
	p := new([3]int)
	return p[1:]
}

func ToArrayPtr(s []int) *[2]int {
	return (*[2]int)(s)
}

func ToArrayPtrZero(s []int) *[0]int {
	return (*[0]int)(s)
}

func ToArrayThenBack(s []int) []int {
	a := [1]int(s)
	_ = a
	return s
}

func ResliceNonZero(s []int) []int {
	t := s[:1]
	_ = t
	return s
}

func ResliceZero(s []int) []int {
	return s[0:0]
}

func ResliceVar(s []int, n int) []int {
	return s[:n]
}

// ---- globals ----

var gPtr *T
var gNew = &T{}

func LoadGlobal() *T { return gPtr }

func LoadGlobalChecked() *T {
	if gPtr == nil {
		return &T{}
	}
	return gPtr
}

func LoadGlobalInit() *T { return gNew }

func StoreThenLoadGlobal(p *T) *T {
	gPtr = p
	return gPtr
}

// ---- dereferences, stores, map updates, sends imply non-nil operands ----

func DerefThenReturn(p *T) *T {
	_ = p.V
	return p
}

func StoreThenReturn(p *T) *T {
	p.V = 1
	return p
}

func IndexThenReturn(s []int) []int {
	_ = s[0]
	return s
}

func MapStoreThenReturn(m map[int]*T) map[int]*T {
	m[1] = nil
	return m
}

func MapReadThenReturn(m map[int]*T) map[int]*T {
	_ = m[1]
	return m
}

func LenThenReturn(s []int) []int {
	if len(s) > 0 {
		return s
	}
	return []int{1}
}

func CallThenReturn(f func() *T) func() *T {
	_ = f()
	return f
}

func DeferThenReturn(f func() *T) (r func() *T) {
	defer func() { recover() }()
	defer f()
	return f
}

func MethodCallThenReturn(s Source) Source {
	_ = s.Get()
	return s
}

func TypeAssertThenReturn(x any) any {
	_ = x.(*T)
	return x
}

func TypeAssertOkThenReturn(x any) any {
	_, ok := x.(*T)
	_ = ok
	return x
}

// ---- results of calls, multiple results ----

func pair(p *T) (*T, *T) { return p, &T{} }

func SecondOfPair(p *T) *T {
	_, b := pair(p)
	return b
}

func FirstOfPair(p *T) *T {
	a, _ := pair(p)
	return a
}

func ViaOrNew(p *T) *T { return OrNew(p) }

func ViaNil() *T { return Nil() }

func Recur(p *T, n int) *T {
	if n <= 0 {
		return p
	}
	return Recur(p.Next, n-1)
}

func RecurNew(n int) *T {
	if n <= 0 {
		return &T{}
	}
	return RecurNew(n - 1)
}

// ---- range loops, closures ----

func LastOfRange(xs []int) *T {
	var last *T
	for _, x := range xs {
		last = &T{V: x}
	}
	return last
}

func RangeOverNilMap(m map[int]*T) *T {
	r := &T{}
	for _, v := range m {
		r = v
	}
	return r
}

func ClosureResult(p *T) *T {
	f := func() *T { return p }
	return f()
}

func ClosureWrites(p *T) *T {
	r := &T{}
	f := func() { r = p }
	f()
	return r
}

// ---- interfaces holding values ----

func IfaceSwitch(x any) any {
	switch v := x.(type) {
	case *T:
		return v
	case nil:
		return 0
	default:
		return v
	}
}

func IfaceAssertField(x any) *T {
	if t, ok := x.(*T); ok {
		return t
	}
	return &T{}
}

func IfaceFromSource(s Source) any {
	if s == nil {
		return nil
	}
	return s.Get()
}

// ---- values loaded through pointers to interfaces, generic conversions, gaps ----

func AssertLoaded(p *any, b bool) *T {
	if b {
		return new(T)
	}
	return (*p).(*T)
}

func LoadedIface(p *any) any {
	return *p
}

type handleT uintptr

func FromHandle(h handleT) unsafe.Pointer { return unsafe.Pointer(h) }

func convG[U ~uintptr](h U) unsafe.Pointer { return unsafe.Pointer(h) }

func FromGeneric(u uintptr) unsafe.Pointer { return convG(u) }

func idG[X comparable](x X) X { return x }

func ViaComparable(p *T) *T { return idG(p) }

var gT T

func GapState(q *T, b bool) *T {
	p := &gT
	if b {
		p = q
	}
	r := new(T)
	_ = r.V
	if p == nil {
		return nil
	}
	return &gT
}

// ---- recursion whose results change places ----

func SwapRec(n int) (*T, *T) {
	if n <= 0 {
		return nil, new(T)
	}
	b, a := SwapRec(n - 1)
	return a, b
}

func SwapRecIface(n int) (any, any) {
	if n <= 0 {
		return nil, 1
	}
	b, a := SwapRecIface(n - 1)
	return a, b
}

func MutualA(n int) *T {
	if n <= 0 {
		return nil
	}
	return MutualB(n - 1)
}

func MutualB(n int) *T {
	if n <= 0 {
		return new(T)
	}
	return MutualA(n - 1)
}
