module verifcorpus

go 1.26.0
