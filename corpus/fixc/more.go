package fixc

// Second corpus file: trigger shapes of further checks with suggested fixes
// (strings / bytes / fmt / errors / math helpers, blank identifiers, struct
// conversions, type switches, if-else chains with init statements, embedded
// field selectors with comments and line breaks).

import (
	"bytes"
	"errors"
	"fmt"
	"math"
	"strings"
	"time"
)

// ---- S1003: strings.Index -> strings.Contains ----

func SI1(s string) bool { return strings.Index(s, "a") != -1 }
func SI2(s string) bool { return strings.Index(s, "ab") == -1 }
func SI3(s string) bool { return strings.Index(s, "a") >= 0 }
func SI4(s string) bool { return strings.Index(s, "b") < 0 }
func SI5(s string) bool { return strings.IndexAny(s, "ab") > -1 }
func SI6(s string) bool { return strings.IndexRune(s, 'a') != -1 }
func SI7(s string) int {
	if strings.Index(s, "a") == -1 && strings.IndexByte(s, 'b') != -1 {
		return 1
	}
	return 0
}

// ---- S1004: bytes.Compare -> bytes.Equal ----

func BCmp1(s, t string) bool { return bytes.Compare([]byte(s), []byte(t)) == 0 }
func BCmp2(s, t string) bool { return bytes.Compare([]byte(s), []byte(t)) != 0 }

// ---- S1005: unnecessary blank identifier ----

func BL1(s []int) int {
	n := 0
	for i, _ := range s {
		n += i + 1
	}
	return n
}

func BL2(s []int) int {
	n := 0
	for _ = range s {
		n++
	}
	return n
}

func BL3(k int) int {
	m := map[int]int{1: 10, 2: 20}
	v, _ := m[k]
	return v
}

// ---- S1016: struct conversion ----

type sA struct {
	X, Y int
}

type sB struct {
	X, Y int
}

func SC1(x, y int) int {
	a := sA{x, y}
	b := sB{X: a.X, Y: a.Y}
	return b.X*10 + b.Y
}

// ---- S1025 / S1039: needless Sprintf / Sprint ----

type strT string

func (s strT) String() string { return "<" + string(s) + ">" }

func SP1(s string) string { return fmt.Sprintf("%s", s) }
func SP2(s string) string { return fmt.Sprintf("%s", strT(s)) }
func SP3(s string) int    { return len(fmt.Sprint("lit")) + len(s) }
func SP4(s string) string {
	var x fmt.Stringer = strT(s)
	return fmt.Sprintf("%s", x)
}

// ---- S1028: errors.New(fmt.Sprintf(...)) ----

func ER1(x string) string {
	err := errors.New(fmt.Sprintf("bad value %s", x))
	return err.Error()
}

// variadic spread: fmt.Errorf must receive the "..." as well
func ER2(a, b string) string {
	xs := []any{a, b}
	err := errors.New(fmt.Sprintf("bad %s/%s", xs...))
	return err.Error()
}

// ---- S1030: bytes.Buffer conversions ----

func BB1(s string) string {
	var buf bytes.Buffer
	buf.WriteString(s)
	return string(buf.Bytes())
}

func BB2(s string) int {
	var buf bytes.Buffer
	buf.WriteString(s)
	return len([]byte(buf.String()))
}

// ---- S1034: type switch with repeated assertion ----

func TS1(k, v int) int {
	var x any = v
	if k > 0 {
		x = "s"
	}
	switch x.(type) {
	case int:
		y := x.(int)
		return y + 1
	case string:
		return len(x.(string))
	}
	return -1
}

// ---- QF1003: if/else-if chains ----

func look(x int) int { Trace = append(Trace, 200+x); return x }

func CH1(x int) int {
	if x == 1 {
		return 10
	} else if y := look(x); x == 2 {
		return 20 + y
	} else {
		return 30
	}
}

func CH2(x int) int {
	if y := look(x); y == 1 {
		return 10
	} else if y == 2 {
		return 20
	}
	return 30
}

func CH3(x int) int {
	r := 0
	if x == 1 {
		r = 10
	} else if x == 2 || x == 3 {
		r = 20
	} else if x == 4 {
		r = 30
	}
	return r
}

func CH4(x, n int) int {
	s := 0
	for i := 0; i < n; i++ {
		if x == 1 {
			s += 1
		} else if x == 2 {
			continue
		} else if x == 3 {
			s += 3
		} else {
			s += 4
		}
		s += 10
	}
	return s
}

// ---- QF1004: strings.Replace(..., -1) ----

func RP1(s string) string { return strings.Replace(s, "a", "bb", -1) }

// ---- QF1005: math.Pow with small integer exponents ----

func fl(tag int) float64 {
	Trace = append(Trace, 300+tag)
	if tag > 1 {
		return 2.5
	}
	return 1.5
}

func PW0(k int) int { return int(math.Pow(fl(k&3), 0) * 10) }
func PW1(k int) int { return int(math.Pow(fl(k&3), 1) * 10) }
func PW2(k int) int {
	x := 1.5
	if k > 0 {
		x = 2.5
	}
	return int(math.Pow(x, 2) * 4)
}
func PW3(k int) int {
	x := 1.5
	if k > 1 {
		x = -2.0
	}
	return int(math.Pow(x, 3) * 8)
}
func PW5(k int) int {
	x := 3.0
	if k > 0 {
		x = 0.5
	}
	return int(math.Pow(x, 0)*10) + int(math.Pow(x, 1)*10)
}
func PW4(k int) int { return int(math.Pow(fl(k&3), 2) * 10) }

// ---- QF1008: embedded field in selector ----

type innerT struct{ F, G int }
type outerT struct {
	innerT
	H int
}
type outer2T struct {
	outerT
}

func EF1(x int) int {
	o := outerT{innerT{x, 2}, 3}
	return o.innerT.F + o.H
}

func EF2(x int) int {
	o := outerT{innerT{x, 2}, 3}
	return o.innerT. /* promoted */ F + o.innerT.
		G
}

func EF3(x int) int {
	o := outer2T{outerT{innerT{x, 2}, 3}}
	o.outerT.innerT.F++
	return o.outerT.innerT.F + o.outerT.H
}

// ---- QF1012: Write([]byte(fmt.Sprintf(...))) ----

func FW1(x string) string {
	var buf bytes.Buffer
	buf.Write([]byte(fmt.Sprintf("v=%s", x)))
	buf.WriteString(fmt.Sprintf("/%s", x+"y"))
	return buf.String()
}

// variadic spread: the rewritten call must keep the "..."
func FW2(a, b string) string {
	var buf bytes.Buffer
	xs := []any{a, b}
	buf.WriteString(fmt.Sprintf("%s-%s", xs...))
	return buf.String()
}

// ---- QF1001 / S1002 further shapes ----

func DM20(a, b, c bool) bool { return !(a && b) && !(b || c) }
func DM21(x, y int) bool     { return -1 < x && !(x < y || y > 3) }
func BC20(a, b bool) bool    { return (a == true) != (b == false) }

// ---- S1001 / S1011 / S1018: loops that copy or append ----

func LC1(src []int) int {
	dst := make([]int, len(src))
	for i, x := range src {
		dst[i] = x
	}
	s := 0
	for _, v := range dst {
		s = s*10 + v
	}
	return s
}

func LC2(src []int) int {
	dst := make([]int, len(src))
	for i := range src {
		dst[i] = src[i]
	}
	return len(dst)*100 + sum(dst)
}

func LC3(src []int) int {
	var dst [2]int
	if len(src) < 2 {
		return -1
	}
	for i := 0; i < len(src[:2]); i++ {
		dst[i] = src[i]
	}
	return dst[0]*10 + dst[1]
}

func sum(xs []int) int {
	s := 0
	for _, x := range xs {
		s += x
	}
	return s
}

func LA1(a, b []int) int {
	for _, x := range b {
		a = append(a, x)
	}
	return len(a)*100 + sum(a)
}

func LA2(b []int) int {
	var a []int
	for i := range b {
		a = append(a, b[i])
	}
	return len(a)*100 + sum(a)
}

func SL1M(bs []int, n int) int {
	if n < 0 || n > len(bs) {
		return -1
	}
	for i := 0; i < n; i++ {
		bs[i] = bs[len(bs)-n+i]
	}
	return sum(bs)
}

// ---- S1021 / QF1007: declarations merged with assignments ----

func MD1(a int) int {
	var x int
	x = a * 2
	return x + 1
}

func MD2(a int, c bool) int {
	x := a
	if c {
		x = a + 1
	}
	return x
}

func MD3(a int) int {
	var s string
	s = "v"
	return len(s) + a
}

// ---- S1033 / S1036: guarded map operations ----

func MG1M(k int) int {
	m := map[int]int{1: 1, 2: 2}
	if _, ok := m[k]; ok {
		delete(m, k)
	}
	return len(m)
}

func MG2(k int) int {
	m := map[int][]int{1: {1}}
	if _, ok := m[k]; ok {
		m[k] = append(m[k], 5)
	} else {
		m[k] = []int{5}
	}
	return len(m)*10 + len(m[k])
}

func MG3(k int) int {
	m := map[int]int{1: 7}
	if _, ok := m[k]; ok {
		m[k] += 2
	} else {
		m[k] = 2
	}
	return m[k]
}

// ---- S1008: returning a boolean ----

func RB1M(a, b int) bool {
	if a < b {
		return true
	}
	return false
}

func RB2M(a, b int) bool {
	if a == b || side(a) {
		return false
	}
	return true
}

func RB3M(s string) bool {
	if !strings.HasPrefix(s, "a") {
		return false
	}
	return true
}

// ---- S1010: redundant slice bound ----

func SB1(s []int) int     { return sum(s[:len(s)]) }
func SB2(s string) string { return s[1:len(s)] + "." }

// ---- S1001 with defined array types ----

type celsius [4]int
type fahrenheit [4]int

func AC1(a int) int {
	c := celsius{a, 1, 2, 3}
	var f fahrenheit
	for i := range c {
		f[i] = c[i]
	}
	return f[0] + f[3]
}

func AC2(a int) int {
	c := celsius{a, 1, 2, 3}
	var d celsius
	for i, v := range c {
		d[i] = v
	}
	return d[0] + d[3]
}

func AC3(a int) int {
	c := [4]int{a, 1, 2, 3}
	var d celsius
	for i := range c {
		d[i] = c[i]
	}
	return d[0] + d[2]
}

// ---- QF1011: redundant type in variable declaration ----

type flagT bool

func (f flagT) String() string {
	if f {
		return "yes"
	}
	return "no"
}

func RT1(a int) int {
	var x int = a + 1
	return x
}

func RT2(bits uint8) int {
	var top uint8 = 1 << bits
	return int(top)
}

func RT3(a, b int) string {
	var same flagT = a == b
	return same.String()
}

func RT4(a int) int {
	var f float64 = 1
	var g = float64(a)
	return int(f + g)
}

func RT5(s string) int {
	var e error = errors.New(s)
	var t fmt.Stringer = strT(s)
	return len(e.Error()) + len(t.String())
}

func RT6(a int) int {
	var n int64 = int64(a)
	var u uint8 = uint8(a)
	return int(n) + int(u)
}

// ---- QF1009: time comparisons (only the applies-cleanly clauses are checked) ----

func TQ1(a, b time.Time) bool { return a == b }

func TQ2(t time.Time) int {
	if (time.Time{}) == t {
		return 1
	}
	for i := 0; (time.Time{}) == t && i < 1; i++ {
		return 2
	}
	return 0
}

func TQ3(a, b time.Time) bool { return !(a == b) || (a) == (b) }

// ---- shapes reported by reviewers as mis-fixed (kept at the end of the file) ----

func ZA1(k, v int) int {
	var x any = v
	if k > 0 {
		x = "s"
	}
	switch x.(type) {
	case int:
		y, ok := x.(int)
		if ok {
			return y
		}
	}
	return -1
}

func ZA2(k int, c bool) int {
	m := map[int]int{1: 1, 2: 2}
	if c {
		m[3] = 3
	} else if _, ok := m[k]; ok {
		delete(m, k)
	}
	return len(m)
}

func ZA3(s string) string {
	return strings.Replace(
		s,
		"a",
		"c",
		-1,
	)
}

func ZA4(x, y int) int {
	a := sA{x, y}
	b := &sB{X: a.X, Y: a.Y}
	return b.X*10 + b.Y
}
