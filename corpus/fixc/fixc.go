// Package fixc is the program corpus for the behavioural clause of C16:
// every function instantiates the trigger shape of a simplification (S1xxx)
// or quick-fix (QF1xxx) check whose suggested fix is an equivalent rewrite,
// with operands that are identifiers, calls with observable side effects,
// comparisons with each relational operator, negations and mixed && / ||.
package fixc

// Trace records the observable call sequence.
var Trace []int

func use(x int)       { Trace = append(Trace, x) }
func side(x int) bool { Trace = append(Trace, x); return x > 0 }
func val(x int) int   { Trace = append(Trace, 100+x); return x }

// ---- QF1001: De Morgan ----

func DM1(a, b bool) bool    { return !(a && b) }
func DM2(a, b bool) bool    { return !(a || b) }
func DM3(a, b, c bool) bool { return !(a && b) && c }
func DM4(a, b, c bool) bool { return c && !(a || b) }
func DM5(a, b, c bool) bool { return !(a && b) || c }
func DM6(a, b, c bool) bool { return c || !(a || b) }
func DM7(a, b, c bool) bool { return !(a && (b || c)) }
func DM8(a, b, c bool) bool { return !((a || b) && c) }
func DM9(x, y int, c bool) bool  { return !(x < y && c) }
func DM10(x, y int, c bool) bool { return !(x <= y || c) }
func DM11(x, y int, c bool) bool { return !(x > y && c) }
func DM12(x, y int, c bool) bool { return !(x >= y || c) }
func DM13(x, y int, c bool) bool { return !(x == y && c) }
func DM14(x, y int, c bool) bool { return !(x != y || c) }
func DM15(x, y int) bool         { return !(side(x) && side(y)) }
func DM16(x, y int) bool         { return !(side(x) || side(y)) }
func DM17(a, b bool) bool        { return !(!a && b) }
func DM18(a, b, c, d bool) bool  { return !(a && b) == (c || d) }
func DM19(a, b, c bool) int {
	if !(a || b) && c {
		return 1
	}
	return 0
}

// ---- S1002: comparison with a boolean constant ----

func BC1(a bool) bool       { return a == true }
func BC2(a bool) bool       { return a != true }
func BC3(a bool) bool       { return a == false }
func BC4(a bool) bool       { return a != false }
func BC5(a bool) bool       { return !a == true }
func BC6(a bool) bool       { return !a != false }
func BC7(a, b bool) bool    { return (a || b) == false }
func BC8(a, b bool) bool    { return (a && b) != true }
func BC9(a, b bool) bool    { return !(a || b) == true }
func BC10(a, b bool) bool   { return !(a && b) != false }
func BC11(x int) bool       { return side(x) == false }
func BC12(x, y int) bool    { return (x < y) == true }
func BC13(a bool) int {
	if a == false {
		return 1
	}
	return 2
}
func BC14(a, b bool) bool { return true == (a || b) }
func BC15(a, b bool) bool { return !!(a && b) == false }

// ---- S1008: returning a boolean expression ----

func RB1(x, y int) bool {
	if x < y {
		return true
	}
	return false
}

func RB2(x, y int) bool {
	if x <= y {
		return false
	}
	return true
}

func RB3(a, b bool) bool {
	if a && b {
		return false
	}
	return true
}

func RB4(a, b bool) bool {
	if a || !b {
		return true
	}
	return false
}

func RB5(x int) bool {
	if side(x) {
		return true
	}
	return false
}

func RB6(x, y int) bool {
	if x != y {
		return false
	}
	return true
}

func RB7(x, y int) bool {
	if !(x >= y) {
		return false
	}
	return true
}

// ---- QF1006: lift if+break into the loop condition ----

func LB1(n int) int {
	s, i := 0, 0
	for {
		if i >= n {
			break
		}
		s += i
		i++
	}
	return s
}

func LB2(n int) int {
	s, i := 0, 0
	for {
		if n <= i {
			break
		}
		s += i
		i++
	}
	return s
}

func LB3(n int) int {
	s, i := 0, 0
	for {
		if i > n || s > 5 {
			break
		}
		s += i
		i++
	}
	return s
}

func LB4(n int) int {
	s, i := 0, 0
	for {
		if !(i < n) {
			break
		}
		s += i
		i++
	}
	return s
}

func LB5(n int) int {
	s, i := 0, 0
	for {
		if i == n && s != 3 {
			break
		}
		if i > 4 {
			break
		}
		s += i
		i++
	}
	return s
}

// ---- QF1007: merge conditional assignment into the declaration ----

func MC1(a bool) bool {
	x := false
	if a {
		x = true
	}
	return x
}

func MC2(x, y int) bool {
	r := false
	if x < y {
		r = true
	}
	return r
}

func MC3(x, y int) bool {
	r := true
	if x <= y {
		r = false
	}
	return r
}

// ---- QF1003 / QF1002: switches ----

func SW1(x int) int {
	if x == 1 {
		return 10
	} else if x == 2 {
		return 20
	} else if x == 3 || x == 4 {
		return 30
	}
	return 0
}

func SW2(x int) int {
	r := 0
	if x == 1 {
		r = 10
	} else if x == 2 {
		r = 20
	} else {
		r = -1
	}
	return r
}

func SW3(n int) int {
	s := 0
	for i := 0; i < n && i < 4; i++ {
		if i == 1 {
			s += 10
		} else if i == 2 {
			s += 20
		} else {
			break
		}
	}
	return s
}

func SW4(x int) int {
	switch {
	case x == 1:
		return 1
	case x == 2, x == 3:
		return 2
	}
	return 0
}

func SW5(n int) int {
	s := 0
	for i := 0; i < n && i < 4; i++ {
		if i == 0 {
			s++
		} else if i == 1 {
			continue
		} else if i == 2 {
			s += 5
		}
		s += 100
	}
	return s
}

// ---- S1010 / S1011 / S1021 / S1033 / S1036 / S1001 / S1023 ----

func SL1(xs []int) int {
	if len(xs) < 1 {
		return -1
	}
	ys := xs[1:len(xs)]
	return len(ys)
}

func AP1(xs, ys []int) int {
	for _, y := range ys {
		xs = append(xs, y)
	}
	s := 0
	for _, x := range xs {
		s += x
	}
	return s
}

func VD1(x int) int {
	var y int
	y = x * 2
	return y
}

func DG1(k int) int {
	m := map[int]int{1: 1, 2: 2}
	if _, ok := m[k]; ok {
		delete(m, k)
	}
	return len(m)
}

func MG1(k int) int {
	m := map[int]int{1: 1}
	if _, ok := m[k]; ok {
		m[k] += 5
	} else {
		m[k] = 5
	}
	return m[k] + len(m)
}

func CP1(xs []int) int {
	dst := make([]int, len(xs))
	for i, x := range xs {
		dst[i] = x
	}
	s := 0
	for _, d := range dst {
		s = s*3 + d
	}
	return s
}

func RC1(x int) int {
	s := 0
	for i := 0; i < 2; i++ {
		s += x
		continue
	}
	return s
}
