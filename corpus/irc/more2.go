package irc

// Second corpus file: constructs that the first two files and the generator
// left thin — logical operators in value context (constant operands),
// multi-assignment and := with re-declared variables, defer/recover with a
// panic raised while the deferred calls run, unnamed results on the recovery
// path, evaluation order of compound assignments, loops with per-iteration
// variables captured by closures, goto-built control flow, switch shapes.

// ---- logical operators in value context ----

func AndTrue(a bool) bool {
	x := a && true
	return x
}

func AndFalse(a bool) bool {
	x := a && false
	return x
}

func OrFalse(a bool) bool {
	return a || false
}

func OrTrue(a bool) bool {
	y := a || true
	return y
}

func TrueAnd(a bool) bool {
	x := true && a
	return x
}

func FalseOr(a, b bool) bool {
	x := false || a
	y := (a && true) || (b && false)
	return x != y
}

func LogicMix(a, b, c bool) int {
	x := a && (b || true)
	y := (a || false) && (b || c)
	z := !(a && true) || (c && !false)
	n := 0
	if x {
		n += 1
	}
	if y {
		n += 2
	}
	if z {
		n += 4
	}
	return n
}

func LogicCalls(a, b bool) bool {
	x := sideB(a, 1) && true
	y := sideB(b, 2) || false
	z := sideB(a, 3) && sideB(b, 4) && true
	return x != y || z
}

func sideB(b bool, tag int) bool {
	use(tag)
	return b
}

func LogicArg(a, b bool) int {
	return pickB(a && true, b || false, a && b || true)
}

func pickB(x, y, z bool) int {
	n := 0
	if x {
		n |= 1
	}
	if y {
		n |= 2
	}
	if z {
		n |= 4
	}
	return n
}

func LogicNamed(a bool) B {
	var t B = true
	x := B(a) && t
	return x || false
}

func LogicLoop(n int, a bool) int {
	c := 0
	for i := 0; i < n && true; i++ {
		ok := a && i%2 == 0 || false
		if ok {
			c++
		}
	}
	return c
}

// ---- assignments ----

func Redecl(a, b int) (int, int) {
	b, c := a, b
	return b, c
}

func Redecl3(x, y int) (int, int, int) {
	x, y, z := y, x, x+y
	return x, y, z
}

func RedeclCall(a int) (int, int) {
	p := a
	p, q := side(p+1, 1), side(p+2, 2)
	return p, q
}

func side(v, tag int) int {
	use(tag)
	return v
}

func SwapChain(a, b, c int) (int, int, int) {
	a, b, c = b, c, a
	a, b = b, a+c
	return a, b, c
}

func TupleIdx(s []int, i, j int) int {
	if len(s) < 2 {
		return -1
	}
	i, j = j&1, i&1
	s[i], s[j] = s[j], s[i]+1
	return s[0]*10 + s[1]
}

func AssignPtrs(p, q *int) int {
	if p == nil || q == nil {
		return 0
	}
	*p, *q = *q, *p+1
	return *p - *q
}

func CompoundOrder(s []int, i int) int {
	if len(s) == 0 {
		return 0
	}
	s[side(i&0, 1)] += side(5, 2)
	s[side(0, 3)] <<= uint(side(1, 4))
	return s[0]
}

func IncDecField(p *Pair) int {
	if p == nil {
		return -1
	}
	p.A++
	p.B--
	p.A, p.B = p.B, p.A
	return p.A*3 + p.B
}

func ShadowBlocks(a int) int {
	x := a
	{
		x := x + 1
		x, y := x*2, x
		a = x + y
	}
	if x := x + 10; x > 12 {
		a += x
	} else if y := x - 1; y > 0 {
		a -= y
	}
	return a + x
}

// ---- defer / recover ----

func DeferPanicAfterReturn() int {
	defer func() { recover() }()
	defer func() { panic("boom") }()
	return 5
}

func DeferPanicAfterReturnArg(a int) int {
	defer func() { recover() }()
	defer func() {
		if a > 0 {
			panic("late")
		}
	}()
	return a + 1
}

func DeferNamedAfterReturn(a int) (r int) {
	defer func() {
		if recover() != nil {
			r += 100
		}
	}()
	defer func() {
		if a&1 == 1 {
			panic("odd")
		}
	}()
	return a * 2
}

func DeferTwoResults(a int) (int, bool) {
	defer func() { recover() }()
	defer func() {
		use(a)
		if a == 3 {
			panic(a)
		}
	}()
	return a + 7, a > 0
}

func DeferOrderTrace(a int) (r int) {
	for i := 0; i < 3; i++ {
		defer func(k int) {
			use(k + r)
			r += k
		}(i + a)
	}
	return a
}

func RecoverValue(a int) (r int) {
	defer func() {
		if v := recover(); v != nil {
			if n, ok := v.(int); ok {
				r = n
			} else {
				r = -1
			}
		}
	}()
	if a > 2 {
		panic(a * 2)
	}
	if a < 0 {
		var p *int
		return *p
	}
	return a
}

func RecoverRepanic(a int) (r int) {
	defer func() {
		if recover() != nil {
			r = 9
		}
	}()
	defer func() {
		if v := recover(); v != nil {
			panic("again")
		}
	}()
	if a > 0 {
		panic("first")
	}
	return 1
}

func DeferLoopBreak(n int) (r int) {
	defer func() { r *= 2 }()
	for i := 0; ; i++ {
		if i >= n {
			break
		}
		r += i
	}
	return r + 1
}

func DeferMethod(p *Pair) (r int) {
	if p == nil {
		return -1
	}
	defer p.bump(3)
	defer func() { r += p.A }()
	return p.A
}

func (p *Pair) bump(k int) {
	use(p.A + k)
	p.A += k
}

func DeferInBranch(a int, c bool) int {
	x := a
	if c {
		defer esc(&x)
	}
	x++
	use(x)
	return x
}

// ---- loops, closures, per-iteration variables ----

func LoopVarCapture(n int) int {
	var fs []func() int
	for i := 0; i < n; i++ {
		fs = append(fs, func() int { return i * 10 })
	}
	s := 0
	for _, f := range fs {
		s += f()
	}
	return s
}

func LoopVarAddr(n int) int {
	var ps []*int
	for i := 0; i < n; i++ {
		ps = append(ps, &i)
		if i == 1 {
			i++
		}
	}
	s := 0
	for _, p := range ps {
		s = s*10 + *p
	}
	return s
}

func LoopVarEarlyExit(n int) int {
	for i := 0; i < 3; i++ {
		f := func() int { return i + n }
		if n > 0 {
			return f()
		}
		esc(&i)
		break
	}
	return -1
}

func LoopNoPost(n int) int {
	s := 0
	for i := 0; i < n; {
		p := &i
		*p += 2
		s += i
	}
	return s
}

func RangeIntCapture(n int) int {
	s := 0
	var last func() int
	for i := range n {
		last = func() int { return i }
		s += i
	}
	if last != nil {
		s += last() * 100
	}
	return s
}

func RangeSliceMutate(s []int) int {
	t := 0
	for i, v := range s {
		if i == 0 && len(s) > 1 {
			s[1] = v + 1
		}
		t = t*10 + v
	}
	return t
}

func RangeStringRunes(s string) int {
	n := 0
	for i, r := range s {
		n += i*int(r) + 1
	}
	return n
}

func LabelledContinue2(n int) int {
	c := 0
outer:
	for i := 0; i < n; i++ {
		for j := 0; j < 3; j++ {
			if j == i {
				continue outer
			}
			if i+j == 4 {
				break outer
			}
			c += j + 1
		}
		c += 100
	}
	return c
}

func ClosureCounter(a int) int {
	x := a
	inc := func() int { x++; return x }
	dec := func() int { x -= 2; return x }
	r := inc()*100 + dec()*10
	return r + x
}

func ClosureEscapeSome(a int, c bool) int {
	x := a
	var f func()
	if c {
		f = func() { x += 5 }
	}
	x *= 2
	if f != nil {
		f()
	}
	return x
}

// ---- goto ----

func GotoLoop(n int) int {
	i, s := 0, 0
top:
	if i >= n {
		goto done
	}
	s += i
	i++
	if s > 5 {
		goto done
	}
	goto top
done:
	return s*10 + i
}

func GotoSkip(a int) int {
	r := 0
	if a > 1 {
		goto L2
	}
	r += 1
	if a == 1 {
		goto L3
	}
L2:
	r += 10
L3:
	r += 100
	return r
}

func GotoIrreducible(a, n int) int {
	i := 0
	s := 0
	if a > 0 {
		goto B
	}
A:
	s += 1
	i++
	if i > n {
		return s
	}
B:
	s += 10
	i++
	if i > n {
		return s
	}
	goto A
}

func EmptyLabel(a int) int {
	r := a
	if a > 0 {
		goto L
	}
	r++
L:
	;
	return r
}

// ---- switch shapes ----

func SwitchInit(a int) int {
	switch x := a * 2; {
	case x > 4:
		return x
	case x < 0:
		return -x
	default:
		return 0
	}
}

func SwitchFallDefaultM2(a int) int {
	r := 0
	switch a {
	case 0:
		r += 1
		fallthrough
	default:
		r += 10
	case 1:
		r += 100
		fallthrough
	case 2:
		r += 1000
	}
	return r
}

func SwitchNoTagM2(a, b int) int {
	switch {
	case a > b && true:
		return 1
	case a == b || false:
		return 2
	}
	return 3
}

func SwitchBreakLoop(n int) int {
	s := 0
	for i := 0; i < n; i++ {
		switch {
		case i == 1:
			continue
		case i == 3:
			break
		default:
			s += i
		}
		s += 10
	}
	return s
}

func TypeSwitchVals(k int) int {
	var v any
	switch k {
	case 0:
		v = 1
	case 1:
		v = "s"
	case 2:
		v = Pair{1, 2}
	case 3:
		v = (*Pair)(nil)
	}
	switch x := v.(type) {
	case int:
		return x
	case string:
		return len(x) + 10
	case Pair:
		return x.A + x.B + 20
	case *Pair:
		if x == nil {
			return 30
		}
		return 31
	case nil:
		return 40
	}
	return 50
}

// ---- values: structs, arrays, slices, strings ----

func ArrayCopyM2(a, b int) int {
	x := [3]int{a, b, a + b}
	y := x
	y[0] = 9
	p := &x
	p[1] = 7
	return x[0] + x[1]*10 + y[0]*100 + y[1]*1000
}

func StructCopyM2(p *Pair) int {
	if p == nil {
		return 0
	}
	q := *p
	q.A += 5
	r := &q
	r.B = p.A
	return p.A + q.A*10 + q.B*100
}

func SliceAliasM2(s []int) int {
	if len(s) < 2 {
		return -1
	}
	t := s[:1]
	t = append(t, 42)
	u := append(s[:1:1], 43)
	return s[1]*100 + t[1]*10 + u[1]
}

func SliceOfSlice(a, b int) int {
	s := []int{a, b, a + b, a - b}
	t := s[1:3]
	t[0] = 5
	u := t[:3]
	return len(t)*1000 + cap(t)*100 + u[2] + s[1]
}

func StringOps(s string, i int) int {
	t := s + "ab"
	if i < 0 || i >= len(t) {
		return len(t)
	}
	u := t[i:]
	return int(t[i]) + len(u)*1000
}

func StringCompare(a, b string) int {
	switch {
	case a < b:
		return -1
	case a == b:
		return 0
	}
	return 1
}

func MinMaxClear(a, b, c int) int {
	s := []int{a, b, c}
	m := min(a, b, c)*100 + max(a, b)
	clear(s[1:])
	return m + s[0] + s[1] + s[2]
}

func CopyOverlap(s []int) int {
	if len(s) < 2 {
		return 0
	}
	n := copy(s[1:], s)
	return n*100 + s[0]*10 + s[1]
}

func DivModM2(a, b int) (int, int) {
	return a / b, a % b
}

func ShiftBig(a int32, s uint) int32 {
	return a<<s + a>>s
}

func ConvChain(a int64) int {
	x := int8(a)
	y := uint16(x)
	z := int32(y) << 3
	return int(z) + int(uint8(a>>8))
}

func NilDerefInExpr(p *Pair, c bool) int {
	r := 1
	if c && p.A > 0 {
		r = 2
	}
	return r
}

func IndexPanicOrder(s []int, i int) int {
	use(1)
	v := s[i]
	use(2)
	return v
}

// ---- methods, interfaces, generics ----

type shape interface {
	area() int
	scale(k int)
}

type sq struct{ w int }
type rc struct{ w, h int }

func (s sq) area() int    { return s.w * s.w }
func (s sq) scale(k int)  { s.w *= k }
func (r *rc) area() int   { return r.w * r.h }
func (r *rc) scale(k int) { r.w *= k; r.h *= k }

func IfaceDispatch(k, a int) int {
	var s shape
	if k&1 == 0 {
		s = sq{a}
	} else {
		s = &rc{a, 2}
	}
	s.scale(3)
	return s.area()
}

func MethodValueBound(a int) int {
	r := &rc{a, 1}
	f := r.area
	r.w = 10
	g := sq{a}.area
	return f()*100 + g()
}

func MethodExpr(a int) int {
	f := (*rc).area
	g := sq.area
	return f(&rc{a, 3}) + g(sq{2})
}

func mapG[T any, U any](xs []T, f func(T) U) []U {
	var out []U
	for _, x := range xs {
		out = append(out, f(x))
	}
	return out
}

func sumG[T int | int32](xs []T) T {
	var s T
	for _, x := range xs {
		s += x
	}
	return s
}

func GenericUse(s []int) int {
	t := mapG(s, func(x int) int32 { return int32(x) * 2 })
	return int(sumG(t)) + sumG(s)
}

type stack[T any] struct{ items []T }

func (s *stack[T]) push(x T) { s.items = append(s.items, x) }
func (s *stack[T]) pop() (T, bool) {
	var zero T
	if len(s.items) == 0 {
		return zero, false
	}
	x := s.items[len(s.items)-1]
	s.items = s.items[:len(s.items)-1]
	return x, true
}

func GenericStack(a, b int) int {
	var st stack[int]
	st.push(a)
	st.push(b)
	x, _ := st.pop()
	y, _ := st.pop()
	_, ok := st.pop()
	r := x*10 + y
	if ok {
		r = -1
	}
	return r
}

// ---- range over func ----

func countTo(n int) func(func(int) bool) {
	return func(yield func(int) bool) {
		for i := 0; i < n; i++ {
			use(i)
			if !yield(i) {
				return
			}
		}
	}
}

func RangeFuncBreak(n, stop int) int {
	s := 0
	for i := range countTo(n) {
		if i == stop {
			break
		}
		s += i + 1
	}
	return s
}

func RangeFuncReturn(n, stop int) int {
	for i := range countTo(n) {
		if i == stop {
			return i * 100
		}
	}
	return -1
}

func RangeFuncNested(n int) int {
	s := 0
outer:
	for i := range countTo(n) {
		for j := range countTo(3) {
			if j > i {
				continue outer
			}
			if i+j == 3 {
				break outer
			}
			s += 1
		}
	}
	return s
}

func RangeFuncDefer(n int) (r int) {
	for i := range countTo(n) {
		defer func() { r += i }()
	}
	return 1
}

// ---- multi-value, variadic ----

func two(a int) (int, int) { use(a); return a + 1, a + 2 }

func MultiPass(a int) int {
	return addv(two(a))
}

func addv(xs ...int) int {
	s := 0
	for _, x := range xs {
		s += x
	}
	return s
}

func MultiIgnore(a int) int {
	_, y := two(a)
	x, _ := two(y)
	return x + y
}

func VariadicNil() int {
	return addv() + addv([]int{1, 2}...) + addv(3)
}

// ---- maps with interface keys ----

func MapAnyKey(k string, n int) int {
	m := map[any]int{"a": 1, 2: 2}
	v, ok := m[k]
	w, ok2 := m[n]
	m[k] = v + w
	r := m[k] * 10
	if ok {
		r += 1
	}
	if ok2 {
		r += 2
	}
	return r
}

type kerr string

func (k kerr) Error() string { return string(k) }

func MapErrKey(s string) int {
	m := map[error]int{kerr("x"): 7}
	v, ok := m[kerr(s)]
	if !ok {
		return -1
	}
	delete(m, kerr(s))
	return v + len(m)
}

func mapGen[K comparable](m map[any]int, k K) (int, bool) {
	v, ok := m[k]
	return v, ok
}

func MapGenericKey(n int) int {
	m := map[any]int{1: 5, "s": 6}
	a, ok := mapGen(m, n)
	b, _ := mapGen(m, "s")
	if ok {
		return a + b
	}
	return b
}

// ---- goto out of range-over-func loops ----

func RangeFuncGoto(n int) int {
	s := 0
	for i := range countTo(n) {
		if i == 2 {
			goto L
		}
		for j := range countTo(2) {
			if i+j == 2 {
				goto L
			}
			s += 1
		}
	}
	s += 100
L:
	return s
}

func RangeFuncGotoSiblings(n int) int {
	s := 0
	for i := range countTo(n) {
		for j := range countTo(2) {
			if j > i {
				goto out
			}
		}
		for j := range countTo(3) {
			if i+j == 3 {
				goto out
			}
			s += 1
		}
	}
	s += 100
out:
	return s + 1
}

// ---- degenerate control flow (both edges of a branch reach one block) ----

func DegenIfGoto(x, w, y bool) int {
	if x {
		if w {
			use(3)
			goto M
		}
		if y {
			goto L
		}
		goto M
	}
	use(1)
L:
M:
	use(2)
	return 0
}

func DegenIfEmpty(c bool, a int) int {
	if c {
	}
	use(a)
	if !c {
	} else {
	}
	return a + 1
}

func DegenIfBoth(c, d bool) int {
	if d {
		use(1)
	}
	if c {
		goto L
	} else {
		goto L
	}
L:
	use(2)
	return 1
}

func DegenSwitch(a int) int {
	switch a {
	case 1:
	case 2, 3:
	default:
	}
	use(a)
	switch {
	case a > 1:
		fallthrough
	case a > 2:
	}
	return a
}

func DegenLoop(n int, c bool) int {
	s := 0
	for i := 0; i < n; i++ {
		if c {
			continue
		}
	}
	for c && false {
	}
	for range n {
		if c {
			break
		}
	}
	return s
}

func DegenLabels(n int, c bool) int {
	if c {
		goto B
	}
	use(1)
A:
B:
C:
	use(2)
	if n > 3 {
		n--
		goto A
	}
	if n > 2 {
		n--
		goto C
	}
	return n
}

// ---- label order differs from control-flow order ----

func EarlyLabelChain(p, q, s bool) int {
	if p {
		goto A
	}
	use(10)
	goto B
D:
	use(14)
	return 4
A:
	if q {
		goto B
	}
	use(11)
	goto C
B:
	if s {
		goto C
	}
	use(12)
	goto D
C:
	use(13)
	goto D
}

func EarlyLabelChain2(p, q, s bool) int {
	if p {
		goto A
	}
	use(10)
	goto B
C:
	use(13)
	goto D
D:
	use(14)
	return 4
B:
	if s {
		goto C
	}
	use(12)
	goto D
A:
	if q {
		goto B
	}
	use(11)
	goto C
}

func BackwardLabels(p, q bool, n int) int {
	i := 0
	goto Start
Inc:
	i++
	if i > n {
		goto End
	}
Start:
	if p && i == 1 {
		goto Inc
	}
	use(i)
	if q {
		goto Inc
	}
End:
	return i
}

// ---- stores that lifting removes without creating a phi ----

func DeadStoreBranch(c, d bool) int {
	x := 0
	use(x)
	if c {
		if d {
			x = 1
		}
		use(1)
		if d {
			use(5)
		}
		use(6)
	}
	use(2)
	return 0
}

func DeadStoreLoop(n int, c bool) int {
	x, y := 0, 0
	for i := 0; i < n; i++ {
		if c {
			x = i
		} else {
			y = i
		}
	}
	_ = x
	return y
}

// ---- switch: default clause not last, with fallthrough ----

func SwitchDefaultMiddle(a int) int {
	r := 0
	switch {
	case a == 1:
		r += 1
	default:
		r += 10
		fallthrough
	case a == 2:
		r += 100
	}
	return r
}

func SwitchDefaultFirst(a, k int) int {
	r := 0
	switch a {
	default:
		r += 10
		fallthrough
	case k:
		r += 100
		fallthrough
	case 7:
		r += 1000
	}
	return r
}

func SwitchDefaultMiddleCalls(a int) int {
	r := 0
	switch x := side(a, 1); {
	case x > 5:
		r = 1
		fallthrough
	default:
		r += 2
		fallthrough
	case side(x, 2) < 0:
		r += 4
	case x == 0:
		r += 8
	}
	return r
}

// ---- comparisons of booleans with constants ----

func BoolCmpConst(b bool) int {
	r := 0
	if b != true {
		r |= 1
	}
	if true != b {
		r |= 2
	}
	if b == false {
		r |= 4
	}
	if false == b {
		r |= 8
	}
	if b == true {
		r |= 16
	}
	if b != false {
		r |= 32
	}
	return r
}

func BoolCmpValue(a, b bool) bool {
	x := a != true
	y := false != b
	z := (a == b) != true
	return x == y || z
}

func BoolCmpNamed(a B) B {
	var t B = true
	return a != t || a == false
}

// ---- spread arguments of named slice types, nil spread ----

type intList []int

func sumList(base int, xs ...int) int {
	for _, x := range xs {
		base += x
	}
	return base
}

func SpreadNamed(a, b int) int {
	l := intList{a, b}
	return sumList(1, l...)
}

func SpreadNil(a int) int {
	return sumList(a, nil...) + len(append([]int(nil), intList{a}...))
}

func SpreadAppendNamed(a int) int {
	var dst []int
	src := intList{a, a + 1}
	dst = append(dst, src...)
	return len(dst)*10 + dst[1]
}
