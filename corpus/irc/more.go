package irc

// ---- methods, interfaces, type switches ----

type Shape interface{ Area() int }
type Sq struct{ S int }
type Rect struct{ W, H int }

func (s Sq) Area() int    { return s.S * s.S }
func (r *Rect) Area() int { return r.W * r.H }

func mkShape(k, a, b int) Shape {
	switch k {
	case 0:
		return Sq{a}
	case 1:
		return &Rect{a, b}
	}
	return nil
}

func Iface(k, a, b int) int {
	s := mkShape(k, a, b)
	if s == nil {
		return -1
	}
	return s.Area()
}

func TypeSwitch(k, a, b int) int {
	var x any = mkShape(k, a, b)
	switch v := x.(type) {
	case Sq:
		return v.S
	case *Rect:
		return v.W - v.H
	case nil:
		return -7
	default:
		return -8
	}
}

func TypeAssert(k, a int) (int, bool) {
	var x any
	if k == 0 {
		x = a
	} else if k == 1 {
		x = "s"
	}
	v, ok := x.(int)
	return v + 1, ok
}

// ---- closures ----

func Closure(a int) int {
	x := a
	inc := func(d int) { x += d }
	inc(2)
	inc(3)
	return x
}

func ClosureLoop(n int) int {
	s := 0
	for i := 0; i < n && i < 3; i++ {
		f := func() int { return i * 2 }
		s += f()
	}
	return s
}

// ---- defer / recover with named results ----

func DeferNamed(a int) (r int) {
	defer func() { r += 10 }()
	r = a * 2
	return r + 1
}

func Recover(a, b int) (r int) {
	defer func() {
		if e := recover(); e != nil {
			r = -1
		}
	}()
	r = a / b
	return r + 1
}

func DeferOrder(n int) int {
	for i := 0; i < n && i < 3; i++ {
		defer use(i)
	}
	use(100)
	return n
}

// ---- generics ----

func Max[T int | int32](a, b T) T {
	if a > b {
		return a
	}
	return b
}

func UseGeneric(a, b int, c, d int32) int {
	return Max(a, b) + int(Max(c, d))
}

// ---- maps (concrete keys) ----

func MapOps(a, b int) int {
	m := map[int]int{1: a}
	m[2] = b
	m[1] += 5
	v, ok := m[3]
	if !ok {
		v = -1
	}
	delete(m, 2)
	return m[1] + v + len(m)
}

// ---- short-circuit with side effects ----

func sideT(x int) bool { use(x); return x > 0 }

func ShortCircuit(a, b int) int {
	r := 0
	if sideT(a) && sideT(b) {
		r |= 1
	}
	if sideT(-a) || sideT(b+1) {
		r |= 2
	}
	return r
}

// ---- compound assignment, evaluation order ----

func next(p *int) int { *p++; return *p }

func EvalOrder(a int) int {
	k := a
	arr := [4]int{}
	arr[next(&k)&3] = next(&k)
	x := next(&k) - next(&k)*2
	return arr[0] + arr[1]*10 + arr[2]*100 + arr[3]*1000 + x
}

func CompoundAssign(xs []int, i int) int {
	if i < 0 || i >= len(xs) {
		return 0
	}
	xs[i] += 3
	xs[i] <<= 1
	xs[i] &^= 4
	return xs[i]
}

func MultiAssign(a, b, c int) int {
	a, b, c = b, c, a
	a, b = b+a, a
	return a*100 + b*10 + c
}
