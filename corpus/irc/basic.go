// Package irc is the hand-written program corpus for the IR properties
// (C01, C02, C14b): one or more functions per construct of the executable
// subset. Opaque effects go through use/esc/sink so that the order of calls
// and the stores through pointers are observable.
package irc

// Trace records the observable call sequence.
var Trace []int

func use(x int)   { Trace = append(Trace, x) }
func useB(b bool) { if b { Trace = append(Trace, 1) } else { Trace = append(Trace, 0) } }

// esc makes *p escape and mutates it observably.
func esc(p *int) {
	Trace = append(Trace, *p)
	*p += 7
}

// esc2 makes two addresses escape at once.
func esc2(p, q *int) {
	Trace = append(Trace, *p, *q)
	*p += 3
	*q *= 2
}

func sink(ps ...*int) {
	for _, p := range ps {
		if p != nil {
			Trace = append(Trace, *p)
			*p++
		}
	}
}

type B bool
type I32 int32
type Pair struct{ A, B int }
type Node struct {
	Val  int
	Next *Node
}

// ---- straight-line and arithmetic ----

func Arith(a, b int) int {
	x := a + b*3
	y := x - a/2
	if b != 0 {
		y += a % b
	}
	return x ^ y | a&b
}

func Shifts(a int32, s uint8) int32 {
	x := a << (s & 7)
	y := a >> (s & 31)
	return x + y + I32ToInt32(I32(a))
}

func I32ToInt32(x I32) int32 { return int32(x) * 2 }

func MixedWidth(a int8, b uint16, c int64) int64 {
	x := int64(a) + int64(b)
	if uint16(a) < b {
		x -= c
	}
	return x * int64(int8(b))
}

func Compare(a, b int, u, v uint) (r int) {
	if a < b {
		r |= 1
	}
	if u < v {
		r |= 2
	}
	if a <= b && u >= v {
		r |= 4
	}
	if a == b || u != v {
		r |= 8
	}
	return
}

// ---- named bool types and implicit conversions ----

func NamedBool(x B, i, j int) B {
	var r B = x && i < j
	if !(i < j) {
		r = !r
	}
	if r == (i == j) {
		return B(i > j)
	}
	return r
}

func BoolOps(a, b, c bool) bool {
	return (a && b) || (!a && c) || (a != c)
}

// ---- if/else, phis ----

func Diamond(c bool, a, b int) int {
	x := a
	if c {
		x = b + 1
	} else {
		x = a - 1
	}
	return x * 2
}

func NestedIf(a, b int, c, d bool) int {
	x, y := a, b
	if c {
		if d {
			x = y + 1
		} else {
			y = x + 2
		}
	} else if d {
		x, y = y, x
	}
	return x*10 + y
}

// ---- loops ----

func SumTo(n int) int {
	s := 0
	for i := 0; i < n; i++ {
		s += i
	}
	return s
}

func SwapLoop(n, a, b int) int {
	x, y := a, b
	for i := 0; i < n; i++ {
		x, y = y, x+1
	}
	return x - y
}

func LoopIfElseUse(n int, c bool) int {
	x := 0
	for i := 0; i < n; i++ {
		if c {
			x = i + 1
		} else {
			use(x)
		}
		c = !c
	}
	return x
}

func WhileBreak(n int) int {
	i, s := 0, 0
	for {
		if i >= n {
			break
		}
		if i%3 == 1 {
			i++
			continue
		}
		s += i
		i++
	}
	return s
}

func LabelledContinue(n int) int {
	s := 0
	i := 0
outer:
	for ; i < n; s += 100 {
		i++
		for j := 0; j < 3; j++ {
			if j == 1 {
				continue outer
			}
			s++
		}
	}
	return s
}

func LabelledBreak(n, m int) int {
	s := 0
outer:
	for i := 0; i < n; i++ {
		for j := 0; j < m; j++ {
			if i*j > 3 {
				break outer
			}
			s += i + j
		}
	}
	return s
}

func RangeInt(n int) int {
	s := 0
	for i := range n {
		s += i * i
	}
	return s
}

func RangeSlice(xs []int) (s int) {
	for i, x := range xs {
		if i%2 == 0 {
			s += x
		} else {
			s -= x
		}
	}
	return
}

func RangeString(str string) int {
	n := 0
	for i, r := range str {
		n += i + int(r)
	}
	return n
}

// ---- switch ----

func Switch(x int) int {
	r := 0
	switch x {
	case 0:
		r = 10
	case 1, 2:
		r = 20
		fallthrough
	case 3:
		r += 5
	default:
		r = -1
	}
	return r
}

func SwitchNoTag(a, b int) int {
	switch {
	case a < b:
		return -1
	case a > b:
		return 1
	}
	return 0
}

func SwitchFallDefault(x int) int {
	r := 1
	switch x {
	case 5:
		r *= 2
		fallthrough
	default:
		r += 3
	case 7:
		r = 9
	}
	return r
}

// ---- goto, irreducible control flow ----

func Goto(n int) int {
	i, s := 0, 0
loop:
	if i < n {
		s += i
		i++
		goto loop
	}
	return s
}

func Irreducible(d, e bool, n int) int {
	s := 0
	k := 0
	if d {
		sinkInt(1)
		goto bl
	}
	goto xl
bl:
	s += 2
	sinkInt(2)
xl:
	s += 3
	sinkInt(3)
	k++
	if e && k < n {
		goto bl
	}
	return s
}

func sinkInt(x int) { Trace = append(Trace, x) }

// ---- pointers, address-taken locals, split allocs ----

func AddrLocal(a int) int {
	x := a
	p := &x
	*p += 2
	return x
}

func EscapeOnBranch(c bool, a int) int {
	x := a
	x++
	if c {
		esc(&x)
	}
	x *= 2
	return x
}

func EscapeInLoop(n int) int {
	s := 0
	for i := 0; i < n; i++ {
		x := i
		s += x
		if i == 2 {
			esc(&x)
			s += x
			break
		}
	}
	return s
}

func EscapeAfterLoopVar(n int) int {
	t := 0
	for i := 0; i < n; i++ {
		v := i * 2
		use(v)
		if v > 4 {
			esc(&v)
			return v + t
		}
		t += v
	}
	return t
}

func TwoAddr(c bool) int {
	x := 1
	use(x)
	if c {
		sink(&x, &x)
	}
	return x
}

func SameAddrTwice(c bool, a int) int {
	x := a
	use(x)
	if c {
		esc2(&x, &x)
	}
	return x
}

func TwoLocalsEscape(c bool, a, b int) int {
	x, y := a, b
	x += y
	if c {
		esc2(&x, &y)
		y++
	}
	return x*10 + y
}

func PtrParam(p *int, q *int) int {
	if p == nil {
		return -1
	}
	*p = 5
	if q != nil {
		*q = 6
	}
	return *p
}

func StructPtr(p *Pair, c bool) int {
	if p == nil {
		return 0
	}
	p.A++
	if c {
		p.B = p.A * 2
	}
	q := *p
	q.A = 100
	return p.A + q.B
}

func LinkedList(n *Node) int {
	s := 0
	for k := 0; n != nil && k < 3; k++ {
		s += n.Val
		n = n.Next
	}
	return s
}

// ---- structs, arrays, slices ----

func StructCopy(a, b int) int {
	p := Pair{a, b}
	q := p
	q.A = 9
	p.B += q.A
	return p.A*100 + p.B + q.B
}

func ArrayCopy(a, b int) int {
	arr := [3]int{a, b, a + b}
	brr := arr
	brr[1] = 0
	arr[2]++
	return arr[1] + brr[1] + arr[2] + brr[2]
}

func SliceAlias(xs []int) int {
	if len(xs) < 2 {
		return -1
	}
	ys := xs[:1]
	ys = append(ys, 42)
	return xs[1] + len(ys)
}

func MakeAppend(n int) int {
	var xs []int
	for i := 0; i < n && i < 4; i++ {
		xs = append(xs, i*i)
	}
	s := 0
	for _, x := range xs {
		s += x
	}
	return s + len(xs)*1000
}

// ---- multi-value returns, named results ----

func DivMod(a, b int) (q, r int) {
	if b == 0 {
		return 0, a
	}
	q = a / b
	r = a % b
	return
}

func SwapReturn(p, q int) (a, b int) {
	a, b = p, q
	return b, a
}

func UseMulti(a, b int) int {
	q, r := DivMod(a, b)
	x, y := SwapReturn(q, r)
	return x*7 + y
}

// ---- strings ----

func StrIndex(s string, i int) int {
	if i < 0 || i >= len(s) {
		return -1
	}
	return int(s[i])
}

func StrConcat(a, b string) int {
	c := a + "-" + b
	if c == "x-y" {
		return 1
	}
	return len(c)
}

// ---- panics ----

func MayPanic(xs []int, i int) int {
	return xs[i] + 1
}

func DivPanic(a, b int) int {
	use(a)
	r := a / b
	use(r)
	return r
}

func NilDeref(p *Pair, c bool) int {
	if c {
		use(1)
	}
	return p.A
}
