package exec

import (
	"fmt"

	"verif/sym"
)

// SymPtr is a guarded set of concrete pointers: exactly one guard holds
// under the path condition. It arises from indexing with a symbolic index
// and lets table lookups stay on one path (loads become ite chains, stores
// become conditional updates).
type SymPtr struct {
	C []symCand
}

type symCand struct {
	p *Value
	g *sym.Term
}

const maxSymPtr = 64

// ptr returns a concrete pointer, forking over the candidates of a SymPtr.
func (in *Interp) ptr(v Value) *Value {
	switch v := v.(type) {
	case *Value:
		return v
	case *SymPtr:
		for i, c := range v.C {
			if i == len(v.C)-1 {
				in.addPCIfNeeded(c.g)
				return c.p
			}
			if in.decide(c.g) {
				return c.p
			}
		}
	}
	panic(fmt.Sprintf("ptr: %T", v))
}

func (in *Interp) addPCIfNeeded(g *sym.Term) {
	if !g.IsConst() {
		in.addPC(g)
	}
}

// iteValue merges two values of the same shape under guard g; ok=false if
// the shapes cannot be merged (pointers, differing lengths, ...).
func iteValue(g *sym.Term, a, b Value) (Value, bool) {
	switch x := a.(type) {
	case *sym.Term:
		y, ok := b.(*sym.Term)
		if !ok || x.W != y.W {
			return nil, false
		}
		return sym.Ite(g, x, y), true
	case Struct:
		y, ok := b.(Struct)
		if !ok || len(x) != len(y) {
			return nil, false
		}
		out := make(Struct, len(x))
		for i := range x {
			v, ok := iteValue(g, x[i], y[i])
			if !ok {
				return nil, false
			}
			out[i] = v
		}
		return out, true
	case Array:
		y, ok := b.(Array)
		if !ok || len(x) != len(y) {
			return nil, false
		}
		out := make(Array, len(x))
		for i := range x {
			v, ok := iteValue(g, x[i], y[i])
			if !ok {
				return nil, false
			}
			out[i] = v
		}
		return out, true
	case string, *SymStr:
		switch b.(type) {
		case string, *SymStr:
		default:
			return nil, false
		}
		if xs, ok := a.(string); ok {
			if ys, ok := b.(string); ok && xs == ys {
				return a, true
			}
		}
		xb, yb := strBytes(a), strBytes(b)
		if len(xb) != len(yb) {
			return nil, false
		}
		out := make([]*sym.Term, len(xb))
		for i := range xb {
			out[i] = sym.Ite(g, xb[i], yb[i])
		}
		return mkStr(out), true
	case *Value:
		if y, ok := b.(*Value); ok && x == y {
			return a, true
		}
	case float64:
		if y, ok := b.(float64); ok && x == y {
			return a, true
		}
	case Iface:
		y, ok := b.(Iface)
		if ok && x.T == nil && y.T == nil {
			return a, true
		}
		if ok && x.T != nil && y.T != nil && x.T == y.T {
			v, ok := iteValue(g, x.V, y.V)
			if ok {
				return Iface{T: x.T, V: v}, true
			}
		}
	case []Value:
		if y, ok := b.([]Value); ok && len(x) == len(y) && (len(x) == 0 && (x == nil) == (y == nil) || len(x) > 0 && &x[0] == &y[0]) {
			return a, true
		}
	case *Map:
		if y, ok := b.(*Map); ok && x == y {
			return a, true
		}
	}
	return nil, false
}

// loadSym reads through a guarded pointer set.
func (in *Interp) loadSym(sp *SymPtr) Value {
	n := len(sp.C)
	// pointer-valued cells: the result is again a guarded pointer set
	if _, ok := (*sp.C[0].p).(*Value); ok {
		allPtr := true
		for _, c := range sp.C {
			if _, ok := (*c.p).(*Value); !ok {
				allPtr = false
			}
		}
		if allPtr {
			np := &SymPtr{}
			idx := map[*Value]int{}
			for _, c := range sp.C {
				q := (*c.p).(*Value)
				if k, ok := idx[q]; ok {
					np.C[k].g = sym.Or(np.C[k].g, c.g)
					continue
				}
				idx[q] = len(np.C)
				np.C = append(np.C, symCand{q, c.g})
			}
			if len(np.C) == 1 {
				return np.C[0].p
			}
			return np
		}
	}
	r := copyVal(*sp.C[n-1].p)
	for i := n - 2; i >= 0; i-- {
		v, ok := iteValue(sp.C[i].g, *sp.C[i].p, r)
		if !ok {
			return in.load(in.ptr(sp))
		}
		r = v
	}
	return r
}

// storeSym writes through a guarded pointer set: every candidate cell is
// updated conditionally.
func (in *Interp) storeSym(sp *SymPtr, v Value) {
	// check mergeability first so that a failure leaves memory untouched
	for _, c := range sp.C {
		if _, ok := iteValue(c.g, v, *c.p); !ok {
			in.store(in.ptr(sp), v)
			return
		}
	}
	for _, c := range sp.C {
		nv, _ := iteValue(c.g, v, *c.p)
		in.store(c.p, nv)
	}
}

// symIndex builds the guarded pointer set &base[idx] for a symbolic idx
// already known to be in bounds.
func symIndex(base []Value, idx *sym.Term, outer *sym.Term) []symCand {
	out := make([]symCand, len(base))
	for i := range base {
		g := sym.Eq(idx, sym.BV(uint64(i), int(idx.W)))
		if outer != nil {
			g = sym.And(outer, g)
		}
		out[i] = symCand{&base[i], g}
	}
	return out
}
