package exec

import (
	"fmt"
	"go/constant"
	"go/token"
	"go/types"
	"math"
	"unicode/utf8"

	"golang.org/x/tools/go/ssa"

	"verif/sym"
)

func (in *Interp) constValue(c *ssa.Const) Value {
	if c.Value == nil {
		return Zero(c.Type())
	}
	t, ok := c.Type().Underlying().(*types.Basic)
	if !ok {
		panic("constValue: non-basic constant " + c.String())
	}
	switch {
	case t.Info()&types.IsBoolean != 0:
		return sym.Bool(constant.BoolVal(c.Value))
	case t.Info()&types.IsInteger != 0:
		w := Width(t)
		v := constant.ToInt(c.Value)
		if u, ok := constant.Uint64Val(v); ok {
			return sym.BV(u, w)
		}
		if i, ok := constant.Int64Val(v); ok {
			return sym.BV(uint64(i), w)
		}
		panic("constValue: integer constant out of range: " + c.String())
	case t.Info()&types.IsString != 0:
		if c.Value.Kind() == constant.Int {
			i, _ := constant.Int64Val(c.Value)
			return string(rune(i))
		}
		return constant.StringVal(c.Value)
	case t.Info()&types.IsFloat != 0:
		f, _ := constant.Float64Val(c.Value)
		if t.Kind() == types.Float32 {
			return float64(float32(f))
		}
		return f
	case t.Info()&types.IsComplex != 0:
		re, _ := constant.Float64Val(constant.Real(c.Value))
		im, _ := constant.Float64Val(constant.Imag(c.Value))
		return complex(re, im)
	}
	panic("constValue: " + c.String())
}

// ---- unary / binary operators ----

func (in *Interp) unop(instr *ssa.UnOp, x Value) Value {
	switch instr.Op {
	case token.MUL:
		if sp, ok := x.(*SymPtr); ok {
			return in.loadSym(sp)
		}
		return in.load(x.(*Value))
	case token.ARROW:
		ch := x.(*Chan)
		v, ok := in.chanRecv(ch, instr.X.Type().Underlying().(*types.Chan).Elem())
		if instr.CommaOk {
			return Tuple{v, sym.Bool(ok)}
		}
		return v
	case token.NOT:
		return sym.Not(x.(*sym.Term))
	case token.SUB:
		switch x := x.(type) {
		case *sym.Term:
			return sym.Neg(x)
		case float64:
			return -x
		case complex128:
			return -x
		}
	case token.XOR:
		return sym.BNot(x.(*sym.Term))
	}
	panic(fmt.Sprintf("unop %s %T", instr.Op, x))
}

func (in *Interp) binop(op token.Token, t types.Type, x, y Value) Value {
	switch op {
	case token.EQL:
		return in.valueEq(x, y)
	case token.NEQ:
		return sym.Not(in.valueEq(x, y))
	}
	switch x := x.(type) {
	case *sym.Term:
		return in.intBinop(op, t, x, y.(*sym.Term))
	case string, *SymStr:
		switch op {
		case token.ADD:
			if xs, ok := x.(string); ok {
				if ys, ok := y.(string); ok {
					return xs + ys
				}
			}
			return mkStr(append(append([]*sym.Term(nil), strBytes(x)...), strBytes(y)...))
		case token.LSS:
			return strLess(x, y)
		case token.GTR:
			return strLess(y, x)
		case token.LEQ:
			return sym.Not(strLess(y, x))
		case token.GEQ:
			return sym.Not(strLess(x, y))
		}
	case float64:
		y := y.(float64)
		f32 := false
		if b, ok := t.Underlying().(*types.Basic); ok && b.Kind() == types.Float32 {
			f32 = true
		}
		rnd := func(f float64) Value {
			if f32 {
				return float64(float32(f))
			}
			return f
		}
		switch op {
		case token.ADD:
			return rnd(x + y)
		case token.SUB:
			return rnd(x - y)
		case token.MUL:
			return rnd(x * y)
		case token.QUO:
			return rnd(x / y)
		case token.LSS:
			return sym.Bool(x < y)
		case token.LEQ:
			return sym.Bool(x <= y)
		case token.GTR:
			return sym.Bool(x > y)
		case token.GEQ:
			return sym.Bool(x >= y)
		}
	case complex128:
		y := y.(complex128)
		switch op {
		case token.ADD:
			return x + y
		case token.SUB:
			return x - y
		case token.MUL:
			return x * y
		case token.QUO:
			return x / y
		}
	}
	panic(fmt.Sprintf("binop %s on %T, %T", op, x, y))
}

func (in *Interp) intBinop(op token.Token, t types.Type, x, y *sym.Term) Value {
	if x.W == 0 { // booleans: only ==, != reach here through valueEq; & | are not Go ops on bool
		switch op {
		case token.AND, token.LAND:
			return sym.And(x, y)
		case token.OR, token.LOR:
			return sym.Or(x, y)
		}
		panic("bool binop " + op.String())
	}
	sg := Signed(t)
	w := int(x.W)
	switch op {
	case token.SHL, token.SHR:
		return in.shift(op, sg, x, y)
	case token.QUO, token.REM:
		if y.IsConst() {
			if y.C == 0 {
				in.targetPanicMsg("integer divide by zero")
			}
		} else {
			if in.decide(sym.Eq(y, sym.BV(0, w))) {
				in.targetPanicMsg("integer divide by zero")
			}
			if !x.IsConst() {
				// symbolic / symbolic: enumerate the divisor when it has few values
				if c, ok := in.tryConcretize(y, 16); ok {
					y = c
				}
			}
		}
		switch {
		case op == token.QUO && sg:
			return sym.SDiv(x, y)
		case op == token.QUO:
			return sym.UDiv(x, y)
		case sg:
			return sym.SRem(x, y)
		default:
			return sym.URem(x, y)
		}
	case token.ADD:
		return sym.Add(x, y)
	case token.SUB:
		return sym.Sub(x, y)
	case token.MUL:
		if !x.IsConst() && !y.IsConst() {
			if c, ok := in.tryConcretize(y, 16); ok {
				y = c
			} else if c, ok := in.tryConcretize(x, 16); ok {
				x = c
			}
		}
		return sym.Mul(x, y)
	case token.AND:
		return sym.BAnd(x, y)
	case token.OR:
		return sym.BOr(x, y)
	case token.XOR:
		return sym.BXor(x, y)
	case token.AND_NOT:
		return sym.BAnd(x, sym.BNot(y))
	case token.LSS:
		if sg {
			return sym.SLt(x, y)
		}
		return sym.ULt(x, y)
	case token.LEQ:
		if sg {
			return sym.SLe(x, y)
		}
		return sym.ULe(x, y)
	case token.GTR:
		if sg {
			return sym.SLt(y, x)
		}
		return sym.ULt(y, x)
	case token.GEQ:
		if sg {
			return sym.SLe(y, x)
		}
		return sym.ULe(y, x)
	}
	panic("int binop " + op.String())
}

func (in *Interp) shift(op token.Token, sg bool, x, y *sym.Term) Value {
	w := int(x.W)
	// Note: the signedness of the shift count is not visible here; negative
	// constant counts cannot occur (compile error), and a symbolic signed
	// negative count would be a huge unsigned count, which Go reports as a
	// panic. The callers in scope use unsigned or provably non-negative
	// counts; a symbolic count is therefore treated as unsigned.
	yw := int(y.W)
	var amt *sym.Term
	var big *sym.Term = sym.False
	switch {
	case yw == w:
		amt = y
	case yw < w:
		amt = sym.ZExt(y, w)
	default:
		big = sym.Not(sym.ULt(y, sym.BV(uint64(w), yw)))
		amt = sym.Extract(y, w-1, 0)
	}
	var r, over *sym.Term
	switch {
	case op == token.SHL:
		r, over = sym.Shl(x, amt), sym.BV(0, w)
	case sg:
		r, over = sym.AShr(x, amt), sym.AShr(x, sym.BV(uint64(w-1), w))
	default:
		r, over = sym.LShr(x, amt), sym.BV(0, w)
	}
	return sym.Ite(big, over, r)
}

// valueEq is Go's == on two values of the same static type.
func (in *Interp) valueEq(a, b Value) *sym.Term {
	switch a := a.(type) {
	case *sym.Term:
		return sym.Eq(a, b.(*sym.Term))
	case string, *SymStr:
		return strEq(a, b)
	case float64:
		return sym.Bool(a == b.(float64))
	case complex128:
		return sym.Bool(a == b.(complex128))
	case *Value:
		if sp, ok := b.(*SymPtr); ok {
			return sym.Bool(a == in.ptr(sp))
		}
		if _, ok := b.(Opaque); ok {
			return sym.False
		}
		return sym.Bool(a == b.(*Value))
	case *SymPtr:
		return in.valueEq(in.ptr(a), b)
	case *Chan:
		return sym.Bool(a == b.(*Chan))
	case *Map:
		return sym.Bool(a == b.(*Map))
	case []Value:
		return sym.Bool((a == nil) == (b.([]Value) == nil))
	case *ssa.Function:
		switch b := b.(type) {
		case *ssa.Function:
			return sym.Bool(a == b)
		default:
			return sym.Bool(a == nil && b == nil)
		}
	case *Closure:
		if bf, ok := b.(*ssa.Function); ok {
			return sym.Bool(a == nil && bf == nil)
		}
		return sym.Bool(a == b)
	case *NativeFn:
		if bf, ok := b.(*ssa.Function); ok {
			return sym.Bool(a == nil && bf == nil)
		}
		return sym.Bool(a == b)
	case Iface:
		b := b.(Iface)
		if a.T == nil || b.T == nil {
			return sym.Bool(a.T == nil && b.T == nil)
		}
		if !types.Identical(a.T, b.T) {
			return sym.False
		}
		return in.valueEq(a.V, b.V)
	case Struct:
		b := b.(Struct)
		r := sym.True
		for i := range a {
			r = sym.And(r, in.valueEq(a[i], b[i]))
			if r.IsFalse() {
				break
			}
		}
		return r
	case Array:
		b := b.(Array)
		r := sym.True
		for i := range a {
			r = sym.And(r, in.valueEq(a[i], b[i]))
			if r.IsFalse() {
				break
			}
		}
		return r
	case Opaque:
		bo, ok := b.(Opaque)
		if !ok {
			return sym.False
		}
		if ta, ok := a.X.(typeKey); ok {
			tb, ok := bo.X.(typeKey)
			return sym.Bool(ok && types.Identical(ta.t, tb.t))
		}
		return sym.Bool(a.X == bo.X)
	case nil:
		return sym.Bool(b == nil)
	}
	panic(fmt.Sprintf("valueEq: %T vs %T", a, b))
}

// ---- indexing ----

func ext64(t *sym.Term, signed bool) *sym.Term {
	if t.W == 64 {
		return t
	}
	if signed {
		return sym.SExt(t, 64)
	}
	return sym.ZExt(t, 64)
}

// indexValue bounds-checks an index against n (panicking in the target on
// failure) and returns it as a concrete int, forking over feasible values.
func (in *Interp) indexValue(idx Value, it types.Type, n int) int {
	t := ext64(idx.(*sym.Term), Signed(it))
	if t.IsConst() {
		i := t.Int()
		if i < 0 || i >= int64(n) {
			in.targetPanicMsg(fmt.Sprintf("index out of range [%d] with length %d", i, n))
		}
		return int(i)
	}
	if !in.decide(sym.ULt(t, sym.BV(uint64(n), 64))) {
		in.targetPanicMsg(fmt.Sprintf("index out of range [symbolic] with length %d", n))
	}
	c := in.concretize(t, 256)
	return int(c.Int())
}

func (in *Interp) indexRead(a Array, idx Value, it types.Type) Value {
	t := ext64(idx.(*sym.Term), Signed(it))
	if !t.IsConst() && len(a) > 0 && len(a) <= 64 {
		if _, ok := a[0].(*sym.Term); ok {
			if !in.decide(sym.ULt(t, sym.BV(uint64(len(a)), 64))) {
				in.targetPanicMsg("index out of range [symbolic]")
			}
			r := a[len(a)-1].(*sym.Term)
			for i := len(a) - 2; i >= 0; i-- {
				r = sym.Ite(sym.Eq(t, sym.BV(uint64(i), 64)), a[i].(*sym.Term), r)
			}
			return r
		}
	}
	return copyVal(a[in.indexValue(idx, it, len(a))])
}

func (in *Interp) strIndex(s Value, idx Value, it types.Type) Value {
	t := ext64(idx.(*sym.Term), Signed(it))
	n := strLen(s)
	if t.IsConst() {
		i := t.Int()
		if i < 0 || i >= int64(n) {
			in.targetPanicMsg(fmt.Sprintf("index out of range [%d] with length %d", i, n))
		}
		if cs, ok := s.(string); ok {
			return sym.BV(uint64(cs[i]), 8)
		}
		return s.(*SymStr).B[i]
	}
	if !in.decide(sym.ULt(t, sym.BV(uint64(n), 64))) {
		in.targetPanicMsg("index out of range [symbolic]")
	}
	b := strBytes(s)
	r := b[n-1]
	for i := n - 2; i >= 0; i-- {
		r = sym.Ite(sym.Eq(t, sym.BV(uint64(i), 64)), b[i], r)
	}
	return r
}

// concreteInt forces an integer value to be concrete, forking over its
// feasible values (at most 64).
func (in *Interp) concreteInt(v Value, what string) int64 {
	if v == nil {
		panic("concreteInt: nil " + what)
	}
	t := v.(*sym.Term)
	if t.IsConst() {
		return t.Int()
	}
	return in.concretize(t, 64).Int()
}

func (in *Interp) slice(instr *ssa.Slice, x, lo, hi, max Value) Value {
	var Len, Cap int
	switch x := x.(type) {
	case string, *SymStr:
		Len = strLen(x)
		Cap = Len
	case []Value:
		Len, Cap = len(x), cap(x)
	case *Value:
		if x == nil {
			in.targetPanicMsg("invalid memory address or nil pointer dereference (slice of nil array pointer)")
		}
		a := (*x).(Array)
		Len, Cap = len(a), cap(a)
		if Cap > Len {
			Cap = Len
		}
	default:
		panic(fmt.Sprintf("slice of %T", x))
	}
	l, h, m := int64(0), int64(Len), int64(Cap)
	if lo != nil {
		l = in.concreteInt(lo, "slice low")
	}
	if hi != nil {
		h = in.concreteInt(hi, "slice high")
	}
	if max != nil {
		m = in.concreteInt(max, "slice max")
	}
	switch x := x.(type) {
	case string:
		if l < 0 || l > h || h > int64(Len) {
			in.targetPanicMsg(fmt.Sprintf("slice bounds out of range [%d:%d] with length %d", l, h, Len))
		}
		return x[l:h]
	case *SymStr:
		if l < 0 || l > h || h > int64(Len) {
			in.targetPanicMsg(fmt.Sprintf("slice bounds out of range [%d:%d] with length %d", l, h, Len))
		}
		return mkStr(x.B[l:h])
	case []Value:
		if l < 0 || l > h || h > m || m > int64(Cap) {
			in.targetPanicMsg(fmt.Sprintf("slice bounds out of range [%d:%d:%d] with capacity %d", l, h, m, Cap))
		}
		if x == nil {
			return []Value(nil)
		}
		return x[l:h:m]
	case *Value:
		if l < 0 || l > h || h > m || m > int64(Cap) {
			in.targetPanicMsg(fmt.Sprintf("slice bounds out of range [%d:%d:%d] with capacity %d", l, h, m, Cap))
		}
		a := (*x).(Array)
		return []Value(a)[l:h:m]
	}
	panic("unreachable")
}

// ---- conversions ----

func (in *Interp) conv(tdst, tsrc types.Type, x Value) Value {
	udst, usrc := tdst.Underlying(), tsrc.Underlying()
	switch usrc := usrc.(type) {
	case *types.Signature, *types.Struct, *types.Interface, *types.Map, *types.Chan, *types.Array:
		return x
	case *types.Pointer:
		return x // *T -> *U or unsafe.Pointer
	case *types.Slice:
		switch d := udst.(type) {
		case *types.Basic: // []byte / []rune -> string
			xs := x.([]Value)
			if eb, ok := usrc.Elem().Underlying().(*types.Basic); ok && eb.Kind() == types.Int32 {
				var rs []rune
				for _, r := range xs {
					c, ok := AsInt(r)
					if !ok {
						in.unsupported("[]rune -> string with symbolic rune")
					}
					rs = append(rs, rune(c))
				}
				return string(rs)
			}
			b := make([]*sym.Term, len(xs))
			for i := range xs {
				b[i] = xs[i].(*sym.Term)
			}
			return mkStr(b)
		case *types.Slice:
			return x
		case *types.Array:
			xs := x.([]Value)
			if int64(len(xs)) < d.Len() {
				in.targetPanicMsg("cannot convert slice to array: length too small")
			}
			a := make(Array, d.Len())
			for i := range a {
				a[i] = copyVal(xs[i])
			}
			return a
		}
	case *types.Basic:
		if usrc.Kind() == types.UnsafePointer {
			if _, ok := udst.(*types.Pointer); ok {
				return x
			}
			if b, ok := udst.(*types.Basic); ok && b.Kind() == types.UnsafePointer {
				return x
			}
			in.unsupported("conversion unsafe.Pointer -> %s", tdst)
		}
		switch d := udst.(type) {
		case *types.Slice: // string -> []byte / []rune
			if eb := d.Elem().Underlying().(*types.Basic); eb.Kind() == types.Int32 {
				s, ok := x.(string)
				if !ok {
					in.unsupported("string -> []rune with symbolic bytes")
				}
				var out []Value
				for _, r := range s {
					out = append(out, sym.BV(uint64(r), 32))
				}
				if out == nil {
					out = []Value{}
				}
				return out
			}
			b := strBytes(x)
			out := make([]Value, len(b))
			for i := range b {
				out[i] = b[i]
			}
			return out
		case *types.Basic:
			return in.convBasic(d, usrc, x)
		}
	}
	panic(fmt.Sprintf("conv: %s -> %s (%T)", tsrc, tdst, x))
}

func (in *Interp) convBasic(d, s *types.Basic, x Value) Value {
	switch {
	case d.Kind() == types.UnsafePointer:
		if _, ok := x.(*Value); ok {
			return x
		}
		if t, ok := x.(*sym.Term); ok && isInt(s) {
			// uintptr -> unsafe.Pointer: nil exactly for 0; any other value is some non-nil address
			if in.truth(sym.Eq(t, sym.BV(0, int(t.W)))) {
				return (*Value)(nil)
			}
			p := new(Value)
			*p = Opaque{"address"}
			return p
		}
		in.unsupported("conversion %s -> unsafe.Pointer", s)
	case d.Info()&types.IsString != 0:
		if s.Info()&types.IsString != 0 {
			return x
		}
		if isInt(s) {
			c, ok := AsInt(x)
			if !ok {
				in.unsupported("string(symbolic rune)")
			}
			if c < 0 || c > utf8.MaxRune {
				c = utf8.RuneError
			}
			return string(rune(c))
		}
	case isInt(d):
		switch x := x.(type) {
		case *Value:
			// unsafe.Pointer -> uintptr: 0 exactly for nil
			if x == nil {
				return sym.BV(0, Width(d))
			}
			t := in.fresh("uint64", 64)
			in.assume(sym.Not(sym.Eq(t, sym.BV(0, 64))))
			return t
		case *sym.Term:
			dw := Width(d)
			switch {
			case dw == int(x.W):
				return x
			case dw < int(x.W):
				return sym.Extract(x, dw-1, 0)
			case Signed(s):
				return sym.SExt(x, dw)
			default:
				return sym.ZExt(x, dw)
			}
		case float64:
			if Signed(d) {
				return sym.BV(uint64(int64(x)), Width(d))
			}
			return sym.BV(uint64(x), Width(d))
		}
	case d.Info()&types.IsFloat != 0:
		rnd := func(f float64) Value {
			if d.Kind() == types.Float32 {
				return float64(float32(f))
			}
			return f
		}
		switch x := x.(type) {
		case float64:
			return rnd(x)
		case *sym.Term:
			if !x.IsConst() {
				in.unsupported("float(symbolic int)")
			}
			if Signed(s) {
				return rnd(float64(x.Int()))
			}
			return rnd(float64(x.C))
		}
	case d.Info()&types.IsComplex != 0:
		return x
	case d.Info()&types.IsBoolean != 0:
		return x
	}
	panic(fmt.Sprintf("convBasic: %s -> %s (%T)", s, d, x))
}

// ---- type assertions ----

func (in *Interp) typeAssert(instr *ssa.TypeAssert, itf Iface) Value {
	var v Value
	err := ""
	if itf.T == nil {
		err = fmt.Sprintf("interface conversion: interface is nil, not %s", instr.AssertedType)
	} else if idst, ok := instr.AssertedType.Underlying().(*types.Interface); ok {
		v = itf
		if meth, _ := types.MissingMethod(itf.T, idst, true); meth != nil {
			err = fmt.Sprintf("interface conversion: %v is not %v: missing method %s", itf.T, instr.AssertedType, meth.Name())
		}
	} else if types.Identical(itf.T, instr.AssertedType) {
		v = itf.V
	} else {
		err = fmt.Sprintf("interface conversion: interface is %s, not %s", itf.T, instr.AssertedType)
	}
	if err != "" {
		if !instr.CommaOk {
			in.targetPanicMsg(err)
		}
		return Tuple{Zero(instr.AssertedType), sym.False}
	}
	if instr.CommaOk {
		return Tuple{v, sym.True}
	}
	return v
}

// ---- range ----

func (in *Interp) rangeIter(x Value) Value {
	switch x := x.(type) {
	case *Map:
		it := &mapIter{m: x}
		if x != nil {
			it.entries = append([]*mapEntry(nil), x.entries...)
		}
		return it
	case string, *SymStr:
		return &strIter{in: in, s: x}
	}
	panic(fmt.Sprintf("range over %T", x))
}

// decodeRune decodes the UTF-8 sequence starting at s[i].
func (in *Interp) decodeRune(s Value, i int) (*sym.Term, int) {
	if cs, ok := s.(string); ok {
		r, size := utf8.DecodeRuneInString(cs[i:])
		return sym.BV(uint64(r), 32), size
	}
	b := s.(*SymStr).B
	b0 := b[i]
	if !b0.IsConst() {
		if in.decide(sym.ULt(b0, sym.BV(0x80, 8))) {
			return sym.ZExt(b0, 32), 1
		}
		b0 = in.concretize(b0, 128)
	} else if b0.C < 0x80 {
		return sym.BV(b0.C, 32), 1
	}
	// multi-byte: concretise the continuation bytes that are needed
	buf := []byte{byte(b0.C)}
	need := 1
	switch {
	case b0.C >= 0xF0:
		need = 4
	case b0.C >= 0xE0:
		need = 3
	case b0.C >= 0xC0:
		need = 2
	}
	for k := 1; k < need && i+k < len(b); k++ {
		c := b[i+k]
		if !c.IsConst() {
			c = in.concretize(c, 256)
		}
		buf = append(buf, byte(c.C))
	}
	r, size := utf8.DecodeRune(buf)
	return sym.BV(uint64(r), 32), size
}

// ---- builtins ----

func (in *Interp) callBuiltin(caller *frame, fn *ssa.Builtin, args []Value, cc *ssa.CallCommon) Value {
	switch fn.Name() {
	case "append":
		if len(args) == 1 {
			return args[0]
		}
		dst := args[0].([]Value)
		var src []Value
		switch s := args[1].(type) {
		case string, *SymStr:
			for _, b := range strBytes(s) {
				src = append(src, b)
			}
		case []Value:
			src = s
		}
		if len(src) == 0 {
			return dst
		}
		n := len(dst) + len(src)
		if n <= cap(dst) {
			full := dst[:n]
			tmp := make([]Value, len(src))
			for i := range src {
				tmp[i] = copyVal(src[i])
			}
			for i := range tmp {
				in.setSlot(&full[len(dst)+i], tmp[i])
			}
			return full
		}
		nc := 2 * cap(dst)
		if nc < n {
			nc = n
		}
		if nc < 4 {
			nc = 4
		}
		out := make([]Value, n, nc)
		for i := range dst {
			out[i] = copyVal(dst[i])
		}
		for i := range src {
			out[len(dst)+i] = copyVal(src[i])
		}
		// spare capacity holds zero values of the element type
		if n < nc {
			var et types.Type
			if cc != nil {
				et = cc.Args[0].Type().Underlying().(*types.Slice).Elem()
			}
			spare := out[:nc]
			for i := n; i < nc; i++ {
				if et != nil {
					spare[i] = Zero(et)
				}
			}
		}
		return out

	case "copy":
		dst := args[0].([]Value)
		var src []Value
		switch s := args[1].(type) {
		case string, *SymStr:
			for _, b := range strBytes(s) {
				src = append(src, b)
			}
		case []Value:
			src = s
		}
		n := min(len(dst), len(src))
		tmp := make([]Value, n)
		for i := 0; i < n; i++ {
			tmp[i] = copyVal(src[i])
		}
		for i := 0; i < n; i++ {
			in.store(&dst[i], tmp[i])
		}
		return sym.BV(uint64(n), 64)

	case "close":
		ch := args[0].(*Chan)
		if ch == nil {
			in.targetPanicMsg("close of nil channel")
		}
		if ch.closed {
			in.targetPanicMsg("close of closed channel")
		}
		in.logUndo(func() { ch.closed = false })
		ch.closed = true
		return nil

	case "delete":
		in.mapDelete(args[0].(*Map), args[1])
		return nil

	case "clear":
		switch x := args[0].(type) {
		case *Map:
			in.mapClear(x)
		case []Value:
			if len(x) > 0 && cc != nil {
				et := cc.Args[0].Type().Underlying().(*types.Slice).Elem()
				for i := range x {
					in.store(&x[i], Zero(et))
				}
			}
		}
		return nil

	case "print", "println":
		return nil

	case "len":
		switch x := args[0].(type) {
		case string:
			return sym.BV(uint64(len(x)), 64)
		case *SymStr:
			return sym.BV(uint64(len(x.B)), 64)
		case Array:
			return sym.BV(uint64(len(x)), 64)
		case *Value:
			if x == nil {
				// len of nil *[N]T is N (static); recover from the type
				if cc != nil {
					return sym.BV(uint64(cc.Args[0].Type().Underlying().(*types.Pointer).Elem().Underlying().(*types.Array).Len()), 64)
				}
			}
			return sym.BV(uint64(len((*x).(Array))), 64)
		case []Value:
			return sym.BV(uint64(len(x)), 64)
		case *Map:
			if x == nil {
				return sym.BV(0, 64)
			}
			return sym.BV(uint64(x.Len()), 64)
		case *Chan:
			if x == nil {
				return sym.BV(0, 64)
			}
			return sym.BV(uint64(len(x.buf)), 64)
		}
		panic(fmt.Sprintf("len of %T", args[0]))

	case "cap":
		switch x := args[0].(type) {
		case Array:
			return sym.BV(uint64(len(x)), 64)
		case *Value:
			return sym.BV(uint64(len((*x).(Array))), 64)
		case []Value:
			return sym.BV(uint64(cap(x)), 64)
		case *Chan:
			if x == nil {
				return sym.BV(0, 64)
			}
			return sym.BV(uint64(x.cap), 64)
		}
		panic(fmt.Sprintf("cap of %T", args[0]))

	case "min", "max":
		isMin := fn.Name() == "min"
		r := args[0]
		var t types.Type
		if cc != nil {
			t = cc.Args[0].Type()
		}
		for _, a := range args[1:] {
			switch x := r.(type) {
			case *sym.Term:
				y := a.(*sym.Term)
				var lt *sym.Term
				if t != nil && !Signed(t) {
					lt = sym.ULt(y, x)
				} else {
					lt = sym.SLt(y, x)
				}
				if !isMin {
					lt = sym.Not(sym.Or(lt, sym.Eq(x, y)))
				}
				r = sym.Ite(lt, y, x)
			case float64:
				if isMin {
					r = math.Min(x, a.(float64))
				} else {
					r = math.Max(x, a.(float64))
				}
			case string, *SymStr:
				lt := strLess(a, x)
				if !isMin {
					lt = strLess(x, a)
				}
				if in.truth(lt) {
					r = a
				}
			}
		}
		return r

	case "panic":
		panic(targetPanic{args[0]})

	case "recover":
		return in.doRecover(caller)

	case "ssa:wrapnilchk":
		if p, ok := args[0].(*Value); ok && p == nil {
			in.targetPanicMsg("value method called using nil pointer")
		}
		return args[0]

	case "ssa:deferstack":
		return Opaque{&caller.defers}

	case "real":
		return real(args[0].(complex128))
	case "imag":
		return imag(args[0].(complex128))
	case "complex":
		return complex(args[0].(float64), args[1].(float64))
	}
	panic("unknown builtin " + fn.Name())
}
