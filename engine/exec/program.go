package exec

import (
	"fmt"
	"go/types"
	"os"
	"runtime/debug"
	"sort"
	"strings"
	"sync"
	"time"

	"golang.org/x/tools/go/packages"
	"golang.org/x/tools/go/ssa"
	"golang.org/x/tools/go/ssa/ssautil"

	"verif/smt"
	"verif/sym"
)

type Config struct {
	Workers         int
	MaxSteps        int64 // per path
	MaxDecisions    int   // per path (new decisions at the frontier)
	MaxPaths        int
	Solver          string // incremental back end: z3-new | z3
	TimeoutMs       int    // per incremental query
	HeavyTimeoutMs  int    // per one-shot portfolio query
	CrossCheckEvery int    // cross-check every n-th unsat assertion with a second solver (0 = off)
	ProfileFns      bool
	Script          []uint64 // concrete mode: nondet values in call order
	Samples         int
	StopAfterViol   int
	NoIfConv        bool
	NoSymPtr        bool
	TracePanics     bool
}

func DefaultConfig() Config {
	return Config{Workers: 16, MaxSteps: 200_000_000, MaxDecisions: 100_000, MaxPaths: 5_000_000,
		Solver: "z3-new", TimeoutMs: 20_000, HeavyTimeoutMs: 60_000, Samples: 4, StopAfterViol: 8, TracePanics: os.Getenv("VERIF_TRACE") != "", ProfileFns: true}
}

// Program is the loaded SSA program plus harness metadata; shared,
// read-only, between workers.
type Program struct {
	Prog               *ssa.Program
	Pkgs               map[string]*ssa.Package
	Cfg                Config
	runtimeErrorString types.Type
	Stubs              map[string]*ssa.Function // qualified callee name -> harness function
	Nops               map[string]bool          // functions given empty bodies
	Links              map[string]string        // harness func (go:linkname) -> qualified target
	LoadSeconds        float64
	Files              []string // source files of the target packages (for evidence)

	mu           sync.Mutex
	crossChecked int
	crossBad     int
}

func (p *Program) noteCross(done, bad bool) {
	p.mu.Lock()
	defer p.mu.Unlock()
	if done {
		p.crossChecked++
	}
	if bad {
		p.crossBad++
	}
}

// Load type-checks the named packages of the repository at dir from the
// working tree (plus overlay files), and builds SSA for the whole
// dependency closure.
func Load(dir string, overlay map[string][]byte, patterns ...string) (*Program, error) {
	t0 := time.Now()
	cfg := &packages.Config{Mode: packages.LoadAllSyntax, Dir: dir, Overlay: overlay, Env: os.Environ()}
	pkgs, err := packages.Load(cfg, patterns...)
	if err != nil {
		return nil, err
	}
	var errs []string
	packages.Visit(pkgs, nil, func(p *packages.Package) {
		for _, e := range p.Errors {
			errs = append(errs, e.Error())
		}
	})
	if len(errs) > 0 {
		return nil, fmt.Errorf("load errors:\n%s", strings.Join(errs, "\n"))
	}
	prog, _ := ssautil.AllPackages(pkgs, ssa.InstantiateGenerics|ssa.BareInits|ssa.SanityCheckFunctions&0)
	prog.Build()
	P := &Program{Prog: prog, Pkgs: map[string]*ssa.Package{}, Stubs: map[string]*ssa.Function{}, Links: map[string]string{}}
	for _, sp := range prog.AllPackages() {
		P.Pkgs[sp.Pkg.Path()] = sp
	}
	if rt := P.Pkgs["runtime"]; rt != nil {
		if t := rt.Type("errorString"); t != nil {
			P.runtimeErrorString = t.Object().Type()
		}
	}
	if P.runtimeErrorString == nil {
		P.runtimeErrorString = types.Typ[types.String]
	}
	// stubs: //verif:stub <callee> in the doc comment of a harness function
	for _, pk := range pkgs {
		for _, f := range pk.Syntax {
			name := pk.Fset.Position(f.Pos()).Filename
			if !strings.Contains(name, "zz_verif_") {
				continue
			}
			for _, cg := range f.Comments {
				for _, c := range cg.List {
					if rest, ok := strings.CutPrefix(c.Text, "//go:linkname "); ok {
						fields := strings.Fields(rest)
						if len(fields) == 2 {
							P.Links[pk.PkgPath+"."+fields[0]] = fields[1]
						}
					}
					if rest, ok := strings.CutPrefix(c.Text, "//verif:stub "); ok {
						fields := strings.Fields(rest)
						if len(fields) != 2 {
							return nil, fmt.Errorf("%s: //verif:stub wants <callee> <harness func>", name)
						}
						hf := P.Pkgs[pk.PkgPath].Func(fields[1])
						if hf == nil {
							return nil, fmt.Errorf("%s: stub function %s not found", name, fields[1])
						}
						P.Stubs[fields[0]] = hf
					}
				}
			}
		}
		for _, gf := range pk.GoFiles {
			P.Files = append(P.Files, gf)
		}
	}
	P.LoadSeconds = time.Since(t0).Seconds()
	return P, nil
}

// PathSample is one explored path written out for the evidence file.
type PathSample struct {
	Harness   string            `json:"harness"`
	Decisions []int64           `json:"decisions"`
	Status    string            `json:"status"`
	PC        []string          `json:"path_condition"`
	Model     map[string]uint64 `json:"model,omitempty"`
	Observed  []string          `json:"observed,omitempty"`
	Script    []ScriptVal       `json:"script,omitempty"`
}

type Report struct {
	Harness      string
	Paths        int
	Status       map[string]int
	Details      map[string]string // status -> first detail seen
	Decisions    int64
	Asserts      int64
	Unknowns     int64
	Inconclusive []string
	Steps        int64
	Reached      map[string]int
	Violations   []Violation
	Samples      []PathSample
	FnSteps      map[string]int64
	Wall         float64
	Truncated    bool
	Observed     [][]string // concrete mode
}

type pathResult struct {
	status, detail string
}

func (p *Program) newInterp() (*Interp, error) {
	in := &Interp{P: p,
		globals: map[*ssa.Global]*Value{}, inited: map[*ssa.Package]bool{},
		consts: map[*ssa.Const]Value{}, intrCache: map[*ssa.Function]intrinsic{},
		fnSteps: map[*ssa.Function]int64{}, postdoms: map[*ssa.Function]*pdomInfo{},
		userState: map[string]any{},
	}
	if p.Cfg.Script == nil {
		s, err := smt.Start(p.Cfg.Solver, p.Cfg.TimeoutMs)
		if err != nil {
			return nil, err
		}
		in.sol = s
	}
	return in, nil
}

func (in *Interp) resetPath(prefix []int64) {
	in.prefix = prefix
	in.taken = in.taken[:0]
	in.pending = nil
	in.nondets = in.nondets[:0]
	in.pc = in.pc[:0]
	in.steps = 0
	in.decisions = 0
	in.reached = map[string]int{}
	in.observed = nil
	in.viols = nil
	in.asserts = 0
	in.assertsUn = 0
	in.unknowns = 0
	in.inconclusive = nil
	in.curFrame = nil
	in.userState = map[string]any{}
	in.sampleModel, in.sampleScript = nil, nil
}

// runPath executes the entry function once along prefix.
func (in *Interp) runPath(entry *ssa.Function, prefix []int64) (res pathResult) {
	in.resetPath(prefix)
	if in.sol != nil {
		in.ss = in.sol.Begin()
	}
	defer func() {
		if r := recover(); r != nil {
			switch r := r.(type) {
			case pathEnd:
				res = pathResult{r.Status, r.Detail}
			case targetPanic:
				msg := "unexpected panic in code under test: " + Describe(r.v)
				var m map[string]uint64
				if in.ss != nil {
					_, m = in.ss.Model(sym.True, in.vars())
				}
				in.recordViolation("panic", msg, m)
				res = pathResult{"target_panic", msg}
			default:
				res = pathResult{"engine_error", fmt.Sprintf("%v\n%s\ninterpreted stack:\n%s", r, debug.Stack(), in.stackTrace())}
			}
		}
		if in.ss != nil {
			func() {
				defer func() { recover() }()
				in.ss.End()
			}()
		}
		in.initDepth = 0
		in.rollback()
	}()
	in.callFn(entry, nil, nil, nil)
	if in.wantSample && in.ss != nil {
		if r, m := in.ss.Model(sym.True, in.vars()); r == smt.Sat {
			in.sampleModel = m
			in.sampleScript = in.scriptFromModel(m)
		}
	}
	return pathResult{"ok", ""}
}

// Run explores every feasible path of the harness function.
func (p *Program) Run(pkgPath, fnName string) (*Report, error) {
	pkg := p.Pkgs[pkgPath]
	if pkg == nil {
		return nil, fmt.Errorf("package %s not loaded", pkgPath)
	}
	entry := pkg.Func(fnName)
	if entry == nil {
		return nil, fmt.Errorf("function %s.%s not found", pkgPath, fnName)
	}
	rep := &Report{Harness: fnName, Status: map[string]int{}, Details: map[string]string{}, Reached: map[string]int{}, FnSteps: map[string]int64{}}
	t0 := time.Now()

	if p.Cfg.Script != nil {
		in, err := p.newInterp()
		if err != nil {
			return nil, err
		}
		in.harness = fnName
		res := in.runPath(entry, nil)
		rep.Paths = 1
		rep.Status[res.status]++
		rep.Details[res.status] = res.detail
		rep.Observed = append(rep.Observed, in.observed)
		rep.Violations = in.viols
		rep.Asserts = int64(in.asserts)
		for k, v := range in.reached {
			rep.Reached[k] += v
		}
		rep.Wall = time.Since(t0).Seconds()
		return rep, nil
	}

	var mu sync.Mutex
	cond := sync.NewCond(&mu)
	queue := [][]int64{{}}
	active := 0
	stop := false
	workers := p.Cfg.Workers
	if workers < 1 {
		workers = 1
	}
	var wg sync.WaitGroup
	var firstErr error
	for w := 0; w < workers; w++ {
		wg.Add(1)
		go func() {
			defer wg.Done()
			in, err := p.newInterp()
			if err != nil {
				mu.Lock()
				firstErr = err
				stop = true
				cond.Broadcast()
				mu.Unlock()
				return
			}
			defer in.sol.Close()
			in.harness = fnName
			for {
				mu.Lock()
				for len(queue) == 0 && active > 0 && !stop {
					cond.Wait()
				}
				if stop || (len(queue) == 0 && active == 0) {
					cond.Broadcast()
					mu.Unlock()
					break
				}
				prefix := queue[len(queue)-1]
				queue = queue[:len(queue)-1]
				active++
				in.wantSample = len(rep.Samples) < p.Cfg.Samples
				mu.Unlock()

				res := in.runPath(entry, prefix)

				mu.Lock()
				active--
				rep.Paths++
				rep.Status[res.status]++
				if res.detail != "" {
					if _, ok := rep.Details[res.status]; !ok {
						rep.Details[res.status] = res.detail
					}
				}
				rep.Decisions += int64(in.decisions)
				rep.Asserts += int64(in.asserts)
				rep.Unknowns += int64(in.unknowns)
				rep.Inconclusive = append(rep.Inconclusive, in.inconclusive...)
				rep.Steps += in.steps
				for k, v := range in.reached {
					rep.Reached[k] += v
				}
				for _, v := range in.viols {
					n := 0
					for _, o := range rep.Violations {
						if o.Msg == v.Msg {
							n++
						}
					}
					if n < 3 {
						rep.Violations = append(rep.Violations, v)
					}
				}
				if len(rep.Samples) < p.Cfg.Samples && (res.status == "ok" || res.status == "violation") && len(in.pc) > 0 {
					s := PathSample{Harness: fnName, Decisions: append([]int64(nil), in.taken...), Status: res.status, Observed: in.observed,
						Model: in.sampleModel, Script: in.sampleScript}
					for i, c := range in.pc {
						if i >= 12 {
							s.PC = append(s.PC, fmt.Sprintf("… (%d more conjuncts)", len(in.pc)-i))
							break
						}
						str := c.String()
						if len(str) > 300 {
							str = str[:300] + "…"
						}
						s.PC = append(s.PC, str)
					}
					rep.Samples = append(rep.Samples, s)
				}
				queue = append(queue, in.pending...)
				if rep.Paths >= p.Cfg.MaxPaths {
					rep.Truncated = true
					stop = true
				}
				if p.Cfg.StopAfterViol > 0 {
					distinct := map[string]int{}
					for _, v := range rep.Violations {
						distinct[v.Msg]++
					}
					if len(distinct) >= p.Cfg.StopAfterViol {
						stop = true
					}
				}
				if res.status == "engine_error" {
					stop = true
				}
				cond.Broadcast()
				mu.Unlock()
			}
			mu.Lock()
			for f, n := range in.fnSteps {
				rep.FnSteps[f.String()] += n
			}
			mu.Unlock()
		}()
	}
	wg.Wait()
	if firstErr != nil {
		return nil, firstErr
	}
	if len(queue) > 0 {
		rep.Truncated = true
	}
	rep.Wall = time.Since(t0).Seconds()
	return rep, nil
}

// TopFunctions lists the most executed functions, for the evidence file.
func (r *Report) TopFunctions(n int) []string {
	type kv struct {
		k string
		v int64
	}
	var kvs []kv
	for k, v := range r.FnSteps {
		kvs = append(kvs, kv{k, v})
	}
	sort.Slice(kvs, func(i, j int) bool { return kvs[i].v > kvs[j].v || (kvs[i].v == kvs[j].v && kvs[i].k < kvs[j].k) })
	var out []string
	for i, e := range kvs {
		if i >= n {
			break
		}
		out = append(out, fmt.Sprintf("%s (%d instrs)", e.k, e.v))
	}
	return out
}
