package exec

// Engine-native model of the part of package reflect that the code under
// test uses for reading values (pattern matching over syntax trees):
// ValueOf, Elem, Kind, Type, NumField, Field, FieldByName, Interface,
// IsNil, Len, Index, String, Int, Bool, and reflect.Type's Name, Kind,
// Field(i).Name, NumField, Elem, String and identity.
//
// A reflect.Value is the three-field struct the real package declares; the
// first field carries an Opaque pointer to the model data, so that zero
// Values and == on Values behave as in Go.

import (
	"go/types"

	"golang.org/x/tools/go/ssa"

	"verif/sym"
)

type rvData struct {
	v    Value
	t    types.Type
	addr *Value
}

func (in *Interp) mkRV(v Value, t types.Type, addr *Value) Value {
	return Struct{Opaque{&rvData{v: v, t: t, addr: addr}}, (*Value)(nil), sym.BV(1, 64)}
}

func zeroRV() Value { return Struct{(*Value)(nil), (*Value)(nil), sym.BV(0, 64)} }

func (in *Interp) rv(x Value) *rvData {
	s, ok := x.(Struct)
	if !ok || len(s) != 3 {
		in.unsupported("reflect: malformed Value")
	}
	o, ok := s[0].(Opaque)
	if !ok {
		in.targetPanicMsg("reflect: call of method on zero Value")
	}
	return o.X.(*rvData)
}

func (in *Interp) rtypeOf(t types.Type) Value {
	rp := in.P.Pkgs["reflect"]
	if rp == nil || rp.Type("rtype") == nil {
		in.unsupported("package reflect not loaded")
	}
	return Iface{T: types.NewPointer(rp.Type("rtype").Object().Type()), V: Opaque{typeKey{t}}}
}

// typeKey wraps a types.Type so that Opaque equality is type identity.
type typeKey struct{ t types.Type }

func rtypeArg(v Value) types.Type {
	switch o := v.(type) {
	case Opaque:
		switch k := o.X.(type) {
		case typeKey:
			return k.t
		case types.Type:
			return k
		}
	}
	panic("reflect: not a type value")
}

// reflect.Kind numbering
const (
	kInvalid = iota
	kBool
	kInt
	kInt8
	kInt16
	kInt32
	kInt64
	kUint
	kUint8
	kUint16
	kUint32
	kUint64
	kUintptr
	kFloat32
	kFloat64
	kComplex64
	kComplex128
	kArray
	kChan
	kFunc
	kInterface
	kMap
	kPointer
	kSlice
	kString
	kStruct
	kUnsafePointer
)

func kindOf(t types.Type) int {
	switch u := t.Underlying().(type) {
	case *types.Basic:
		switch u.Kind() {
		case types.Bool:
			return kBool
		case types.Int:
			return kInt
		case types.Int8:
			return kInt8
		case types.Int16:
			return kInt16
		case types.Int32:
			return kInt32
		case types.Int64:
			return kInt64
		case types.Uint:
			return kUint
		case types.Uint8:
			return kUint8
		case types.Uint16:
			return kUint16
		case types.Uint32:
			return kUint32
		case types.Uint64:
			return kUint64
		case types.Uintptr:
			return kUintptr
		case types.Float32:
			return kFloat32
		case types.Float64:
			return kFloat64
		case types.String:
			return kString
		case types.UnsafePointer:
			return kUnsafePointer
		}
	case *types.Array:
		return kArray
	case *types.Chan:
		return kChan
	case *types.Signature:
		return kFunc
	case *types.Interface:
		return kInterface
	case *types.Map:
		return kMap
	case *types.Pointer:
		return kPointer
	case *types.Slice:
		return kSlice
	case *types.Struct:
		return kStruct
	}
	return kInvalid
}

func (in *Interp) rvIsNil(d *rvData) bool {
	switch v := d.v.(type) {
	case *Value:
		return v == nil
	case []Value:
		return v == nil
	case *Map:
		return v == nil
	case *Chan:
		return v == nil
	case Iface:
		return v.T == nil
	case *ssa.Function:
		return v == nil
	case *Closure:
		return v == nil
	}
	in.targetPanicMsg("reflect: call of reflect.Value.IsNil on non-nilable value")
	return false
}

func init() {
	reg("reflect.ValueOf", func(in *Interp, _ *ssa.Function, a []Value) Value {
		i := a[0].(Iface)
		if i.T == nil {
			return zeroRV()
		}
		return in.mkRV(i.V, i.T, nil)
	})
	reg("(reflect.Value).Elem", func(in *Interp, _ *ssa.Function, a []Value) Value {
		d := in.rv(a[0])
		switch u := d.t.Underlying().(type) {
		case *types.Pointer:
			p := d.v.(*Value)
			if p == nil {
				return zeroRV()
			}
			return in.mkRV(*p, u.Elem(), p)
		case *types.Interface:
			i := d.v.(Iface)
			if i.T == nil {
				return zeroRV()
			}
			return in.mkRV(i.V, i.T, nil)
		}
		in.targetPanicMsg("reflect: call of reflect.Value.Elem on non-pointer, non-interface Value")
		return nil
	})
	reg("(reflect.Value).Kind", func(in *Interp, _ *ssa.Function, a []Value) Value {
		s := a[0].(Struct)
		if _, ok := s[0].(Opaque); !ok {
			return sym.BV(kInvalid, 64)
		}
		return sym.BV(uint64(kindOf(in.rv(a[0]).t)), 64)
	})
	reg("(reflect.Value).IsValid", func(in *Interp, _ *ssa.Function, a []Value) Value {
		_, ok := a[0].(Struct)[0].(Opaque)
		return sym.Bool(ok)
	})
	reg("(reflect.Value).Type", func(in *Interp, _ *ssa.Function, a []Value) Value {
		return in.rtypeOf(in.rv(a[0]).t)
	})
	reg("(reflect.Value).NumField", func(in *Interp, _ *ssa.Function, a []Value) Value {
		d := in.rv(a[0])
		st, ok := d.t.Underlying().(*types.Struct)
		if !ok {
			in.targetPanicMsg("reflect: call of reflect.Value.NumField on non-struct Value")
		}
		return sym.BV(uint64(st.NumFields()), 64)
	})
	field := func(in *Interp, d *rvData, i int) Value {
		st := d.t.Underlying().(*types.Struct)
		sv := d.v.(Struct)
		var addr *Value
		if d.addr != nil {
			if cur, ok := (*d.addr).(Struct); ok {
				addr = &cur[i]
			}
		}
		return in.mkRV(sv[i], st.Field(i).Type(), addr)
	}
	reg("(reflect.Value).Field", func(in *Interp, _ *ssa.Function, a []Value) Value {
		d := in.rv(a[0])
		st, ok := d.t.Underlying().(*types.Struct)
		if !ok {
			in.targetPanicMsg("reflect: call of reflect.Value.Field on non-struct Value")
		}
		i := int(in.concreteInt(a[1], "reflect Field index"))
		if i < 0 || i >= st.NumFields() {
			in.targetPanicMsg("reflect: Field index out of range")
		}
		return field(in, d, i)
	})
	reg("(reflect.Value).FieldByName", func(in *Interp, _ *ssa.Function, a []Value) Value {
		d := in.rv(a[0])
		st, ok := d.t.Underlying().(*types.Struct)
		if !ok {
			in.targetPanicMsg("reflect: call of reflect.Value.FieldByName on non-struct Value")
		}
		name, ok := a[1].(string)
		if !ok {
			in.unsupported("reflect: FieldByName with symbolic name")
		}
		for i := 0; i < st.NumFields(); i++ {
			if st.Field(i).Name() == name {
				return field(in, d, i)
			}
		}
		return zeroRV()
	})
	reg("(reflect.Value).Interface", func(in *Interp, _ *ssa.Function, a []Value) Value {
		d := in.rv(a[0])
		if _, ok := d.t.Underlying().(*types.Interface); ok {
			return d.v.(Iface)
		}
		return Iface{T: d.t, V: copyVal(d.v)}
	})
	reg("(reflect.Value).IsNil", func(in *Interp, _ *ssa.Function, a []Value) Value {
		return sym.Bool(in.rvIsNil(in.rv(a[0])))
	})
	reg("(reflect.Value).Len", func(in *Interp, _ *ssa.Function, a []Value) Value {
		d := in.rv(a[0])
		switch v := d.v.(type) {
		case []Value:
			return sym.BV(uint64(len(v)), 64)
		case string, *SymStr:
			return sym.BV(uint64(strLen(v)), 64)
		case Array:
			return sym.BV(uint64(len(v)), 64)
		case *Map:
			if v == nil {
				return sym.BV(0, 64)
			}
			return sym.BV(uint64(v.Len()), 64)
		}
		in.targetPanicMsg("reflect: call of reflect.Value.Len on unsupported Value")
		return nil
	})
	reg("(reflect.Value).Index", func(in *Interp, _ *ssa.Function, a []Value) Value {
		d := in.rv(a[0])
		i := int(in.concreteInt(a[1], "reflect Index"))
		switch v := d.v.(type) {
		case []Value:
			if i < 0 || i >= len(v) {
				in.targetPanicMsg("reflect: slice index out of range")
			}
			return in.mkRV(v[i], d.t.Underlying().(*types.Slice).Elem(), &v[i])
		case Array:
			if i < 0 || i >= len(v) {
				in.targetPanicMsg("reflect: array index out of range")
			}
			return in.mkRV(v[i], d.t.Underlying().(*types.Array).Elem(), nil)
		}
		in.targetPanicMsg("reflect: call of reflect.Value.Index on unsupported Value")
		return nil
	})
	reg("(reflect.Value).Slice", func(in *Interp, _ *ssa.Function, a []Value) Value {
		d := in.rv(a[0])
		i := int(in.concreteInt(a[1], "reflect Slice lo"))
		j := int(in.concreteInt(a[2], "reflect Slice hi"))
		v, ok := d.v.([]Value)
		if !ok {
			in.targetPanicMsg("reflect: call of reflect.Value.Slice on unsupported Value")
		}
		if i < 0 || j < i || j > cap(v) {
			in.targetPanicMsg("reflect.Value.Slice: slice index out of bounds")
		}
		return in.mkRV(v[i:j], d.t, nil)
	})
	reg("(reflect.Value).String", func(in *Interp, _ *ssa.Function, a []Value) Value {
		d := in.rv(a[0])
		switch v := d.v.(type) {
		case string, *SymStr:
			return v
		}
		return "<" + d.t.String() + " Value>"
	})
	reg("(reflect.Value).Int", func(in *Interp, _ *ssa.Function, a []Value) Value {
		d := in.rv(a[0])
		t, ok := d.v.(*sym.Term)
		if !ok || t.W == 0 {
			in.targetPanicMsg("reflect: call of reflect.Value.Int on non-int Value")
		}
		return sym.SExt(t, 64)
	})
	reg("(reflect.Value).Bool", func(in *Interp, _ *ssa.Function, a []Value) Value {
		d := in.rv(a[0])
		t, ok := d.v.(*sym.Term)
		if !ok || t.W != 0 {
			in.targetPanicMsg("reflect: call of reflect.Value.Bool on non-bool Value")
		}
		return t
	})

	// reflect.Type (dynamic type *rtype)
	reg("(*reflect.rtype).Name", func(in *Interp, _ *ssa.Function, a []Value) Value {
		switch t := types.Unalias(rtypeArg(a[0])).(type) {
		case *types.Named:
			return t.Obj().Name()
		case *types.Basic:
			return t.Name()
		}
		return ""
	})
	reg("(*reflect.rtype).Kind", func(in *Interp, _ *ssa.Function, a []Value) Value {
		return sym.BV(uint64(kindOf(rtypeArg(a[0]))), 64)
	})
	reg("(*reflect.rtype).NumField", func(in *Interp, _ *ssa.Function, a []Value) Value {
		st, ok := rtypeArg(a[0]).Underlying().(*types.Struct)
		if !ok {
			in.targetPanicMsg("reflect: NumField of non-struct type")
		}
		return sym.BV(uint64(st.NumFields()), 64)
	})
	reg("(*reflect.rtype).Elem", func(in *Interp, _ *ssa.Function, a []Value) Value {
		switch u := rtypeArg(a[0]).Underlying().(type) {
		case *types.Pointer:
			return in.rtypeOf(u.Elem())
		case *types.Slice:
			return in.rtypeOf(u.Elem())
		case *types.Array:
			return in.rtypeOf(u.Elem())
		case *types.Map:
			return in.rtypeOf(u.Elem())
		case *types.Chan:
			return in.rtypeOf(u.Elem())
		}
		in.targetPanicMsg("reflect: Elem of invalid type")
		return nil
	})
	reg("(*reflect.rtype).Field", func(in *Interp, fn *ssa.Function, a []Value) Value {
		st, ok := rtypeArg(a[0]).Underlying().(*types.Struct)
		if !ok {
			in.targetPanicMsg("reflect: Field of non-struct type")
		}
		i := int(in.concreteInt(a[1], "reflect Type.Field index"))
		if i < 0 || i >= st.NumFields() {
			in.targetPanicMsg("reflect: Field index out of bounds")
		}
		f := st.Field(i)
		// reflect.StructField{Name, PkgPath, Type, Tag, Offset, Index, Anonymous}
		sf := Zero(fn.Signature.Results().At(0).Type()).(Struct)
		sf[0] = f.Name()
		if !f.Exported() && f.Pkg() != nil {
			sf[1] = f.Pkg().Path()
		}
		sf[2] = in.rtypeOf(f.Type())
		sf[3] = st.Tag(i)
		sf[5] = []Value{sym.BV(uint64(i), 64)}
		sf[6] = sym.Bool(f.Embedded())
		return sf
	})
}
