// Package exec is GoSE: a symbolic interpreter for go/ssa, modelled on
// golang.org/x/tools/go/ssa/interp. Scalars (bool, sized integers) are
// sym.Terms — constants when concrete; strings have concrete length with
// possibly symbolic bytes; the heap is concrete.
package exec

import (
	"fmt"
	"go/types"
	"strings"

	"golang.org/x/tools/go/ssa"

	"verif/sym"
)

type Value = any

type (
	Struct []Value
	Array  []Value
	Tuple  []Value
	// Iface is an interface value: dynamic type and value; the nil
	// interface is Iface{}.
	Iface struct {
		T types.Type
		V Value
	}
	Closure struct {
		Fn  *ssa.Function
		Env []Value
	}
	// NativeFn is a function value implemented by the engine.
	NativeFn struct {
		Name string
		F    func(in *Interp, args []Value) Value
	}
	// SymStr is a string of concrete length with at least one symbolic byte.
	SymStr struct{ B []*sym.Term }
	Chan   struct {
		buf    []Value
		cap    int
		closed bool
	}
	// Opaque wraps a native Go value handed through the interpreter
	// unchanged (used by intrinsics).
	Opaque struct{ X any }
)

func isInt(b *types.Basic) bool { return b.Info()&types.IsInteger != 0 }

// Width returns the bit width of an integer type (int/uint/uintptr = 64).
func Width(t types.Type) int {
	b, ok := t.Underlying().(*types.Basic)
	if !ok {
		panic("Width: not basic: " + t.String())
	}
	switch b.Kind() {
	case types.Int8, types.Uint8:
		return 8
	case types.Int16, types.Uint16:
		return 16
	case types.Int32, types.Uint32:
		return 32
	case types.Bool, types.UntypedBool:
		return 0
	}
	return 64
}

func Signed(t types.Type) bool {
	b := t.Underlying().(*types.Basic)
	return b.Info()&types.IsUnsigned == 0
}

func Zero(t types.Type) Value {
	switch t := t.(type) {
	case *types.Basic:
		switch {
		case t.Kind() == types.UntypedNil:
			panic("untyped nil has no zero value")
		case t.Info()&types.IsBoolean != 0:
			return sym.False
		case t.Info()&types.IsInteger != 0:
			return sym.BV(0, Width(t))
		case t.Info()&types.IsString != 0:
			return ""
		case t.Info()&types.IsFloat != 0:
			return float64(0)
		case t.Info()&types.IsComplex != 0:
			return complex128(0)
		case t.Kind() == types.UnsafePointer:
			return (*Value)(nil)
		}
	case *types.Pointer:
		return (*Value)(nil)
	case *types.Array:
		a := make(Array, t.Len())
		for i := range a {
			a[i] = Zero(t.Elem())
		}
		return a
	case *types.Named, *types.Alias:
		return Zero(t.Underlying())
	case *types.Interface:
		return Iface{}
	case *types.Slice:
		return []Value(nil)
	case *types.Struct:
		s := make(Struct, t.NumFields())
		for i := range s {
			s[i] = Zero(t.Field(i).Type())
		}
		return s
	case *types.Tuple:
		if t.Len() == 1 {
			return Zero(t.At(0).Type())
		}
		s := make(Tuple, t.Len())
		for i := range s {
			s[i] = Zero(t.At(i).Type())
		}
		return s
	case *types.Chan:
		return (*Chan)(nil)
	case *types.Map:
		return (*Map)(nil)
	case *types.Signature:
		return (*ssa.Function)(nil)
	}
	panic(fmt.Sprintf("Zero: unsupported type %T %v", t, t))
}

// copyVal returns a copy of v that shares no mutable aggregate storage.
func copyVal(v Value) Value {
	switch v := v.(type) {
	case Struct:
		o := make(Struct, len(v))
		for i := range v {
			o[i] = copyVal(v[i])
		}
		return o
	case Array:
		o := make(Array, len(v))
		for i := range v {
			o[i] = copyVal(v[i])
		}
		return o
	case Tuple:
		panic("copy of tuple")
	}
	return v
}

// ---- strings ----

// strBytes returns the bytes of a string value as 8-bit terms.
func strBytes(v Value) []*sym.Term {
	switch v := v.(type) {
	case string:
		b := make([]*sym.Term, len(v))
		for i := 0; i < len(v); i++ {
			b[i] = sym.BV(uint64(v[i]), 8)
		}
		return b
	case *SymStr:
		return v.B
	}
	panic(fmt.Sprintf("strBytes: %T", v))
}

func strLen(v Value) int {
	switch v := v.(type) {
	case string:
		return len(v)
	case *SymStr:
		return len(v.B)
	}
	panic(fmt.Sprintf("strLen: %T", v))
}

// mkStr builds a string value, normalising to a native string when every
// byte is concrete.
func mkStr(b []*sym.Term) Value {
	for _, x := range b {
		if !x.IsConst() {
			return &SymStr{B: b}
		}
	}
	bs := make([]byte, len(b))
	for i, x := range b {
		bs[i] = byte(x.C)
	}
	return string(bs)
}

func strEq(a, b Value) *sym.Term {
	if x, ok := a.(string); ok {
		if y, ok := b.(string); ok {
			return sym.Bool(x == y)
		}
	}
	if strLen(a) != strLen(b) {
		return sym.False
	}
	x, y := strBytes(a), strBytes(b)
	r := sym.True
	for i := range x {
		r = sym.And(r, sym.Eq(x[i], y[i]))
		if r.IsFalse() {
			return r
		}
	}
	return r
}

// strLess is lexicographic byte order.
func strLess(a, b Value) *sym.Term {
	if x, ok := a.(string); ok {
		if y, ok := b.(string); ok {
			return sym.Bool(x < y)
		}
	}
	x, y := strBytes(a), strBytes(b)
	n := min(len(x), len(y))
	// build from the end: less_i = x[i]<y[i] || (x[i]==y[i] && less_{i+1})
	r := sym.Bool(len(x) < len(y))
	for i := n - 1; i >= 0; i-- {
		r = sym.Or(sym.ULt(x[i], y[i]), sym.And(sym.Eq(x[i], y[i]), r))
	}
	return r
}

// ---- conversion helpers ----

// AsInt returns the concrete signed value of an integer term.
func AsInt(v Value) (int64, bool) {
	t, ok := v.(*sym.Term)
	if !ok || !t.IsConst() {
		return 0, false
	}
	return t.Int(), true
}

func isConcreteScalar(v Value) bool {
	switch v := v.(type) {
	case *sym.Term:
		return v.IsConst()
	case *SymStr:
		return false
	}
	return true
}

// Describe renders a value for logs and evidence samples.
func Describe(v Value) string {
	var sb strings.Builder
	describe(&sb, v, 0)
	return sb.String()
}

func describe(sb *strings.Builder, v Value, depth int) {
	if depth > 6 || sb.Len() > 4000 {
		sb.WriteString("…")
		return
	}
	switch v := v.(type) {
	case nil:
		sb.WriteString("<nil>")
	case *sym.Term:
		if v.IsConst() {
			if v.W == 0 {
				fmt.Fprint(sb, v.C != 0)
			} else {
				fmt.Fprint(sb, v.Int())
			}
		} else {
			sb.WriteString(v.String())
		}
	case string:
		fmt.Fprintf(sb, "%q", v)
	case *SymStr:
		sb.WriteString("symstr[")
		for i, b := range v.B {
			if i > 0 {
				sb.WriteString(" ")
			}
			describe(sb, b, depth+1)
		}
		sb.WriteString("]")
	case Struct:
		sb.WriteString("{")
		for i, f := range v {
			if i > 0 {
				sb.WriteString(", ")
			}
			describe(sb, f, depth+1)
		}
		sb.WriteString("}")
	case Array:
		sb.WriteString("[")
		for i, f := range v {
			if i > 0 {
				sb.WriteString(", ")
			}
			describe(sb, f, depth+1)
		}
		sb.WriteString("]")
	case Tuple:
		sb.WriteString("(")
		for i, f := range v {
			if i > 0 {
				sb.WriteString(", ")
			}
			describe(sb, f, depth+1)
		}
		sb.WriteString(")")
	case []Value:
		if v == nil {
			sb.WriteString("nil-slice")
			return
		}
		sb.WriteString("[]{")
		for i, f := range v {
			if i > 0 {
				sb.WriteString(", ")
			}
			describe(sb, f, depth+1)
		}
		sb.WriteString("}")
	case *Value:
		if v == nil {
			sb.WriteString("nil-ptr")
			return
		}
		sb.WriteString("&")
		describe(sb, *v, depth+1)
	case Iface:
		if v.T == nil {
			sb.WriteString("nil-iface")
			return
		}
		fmt.Fprintf(sb, "iface(%s:", v.T)
		describe(sb, v.V, depth+1)
		sb.WriteString(")")
	case *Map:
		if v == nil {
			sb.WriteString("nil-map")
			return
		}
		sb.WriteString("map{")
		for i, e := range v.entries {
			if e.deleted {
				continue
			}
			if i > 0 {
				sb.WriteString(", ")
			}
			describe(sb, e.k, depth+1)
			sb.WriteString(": ")
			describe(sb, e.v, depth+1)
		}
		sb.WriteString("}")
	case *ssa.Function:
		if v == nil {
			sb.WriteString("nil-func")
		} else {
			sb.WriteString("func " + v.String())
		}
	case *Closure:
		sb.WriteString("closure " + v.Fn.String())
	default:
		fmt.Fprintf(sb, "%T(%v)", v, v)
	}
}
