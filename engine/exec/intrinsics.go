package exec

import (
	"fmt"
	"go/types"
	"math"
	"math/bits"
	"strconv"
	"strings"

	"golang.org/x/tools/go/ssa"

	"verif/sym"
)

type intrinsic func(in *Interp, fn *ssa.Function, args []Value) Value

type pdomInfo struct{}

func (in *Interp) lookupIntrinsic(fn *ssa.Function) intrinsic {
	if f, ok := in.intrCache[fn]; ok {
		return f
	}
	f := in.findIntrinsic(fn)
	in.intrCache[fn] = f
	return f
}

func (in *Interp) findIntrinsic(fn *ssa.Function) intrinsic {
	name := fn.String()
	if o := fn.Origin(); o != nil {
		if f := in.findByName(o.String(), fn); f != nil {
			return f
		}
	}
	return in.findByName(name, fn)
}

func (in *Interp) findByName(name string, fn *ssa.Function) intrinsic {
	if hf, ok := in.P.Stubs[name]; ok && hf != fn {
		return func(in *Interp, _ *ssa.Function, args []Value) Value {
			return in.callFn(hf, args, nil, in.curFrame)
		}
	}
	if target, ok := in.P.Links[name]; ok && fn.Blocks == nil {
		// go:linkname'd declaration in a harness: call the real function
		i := strings.LastIndex(target, ".")
		if pkg := in.P.Pkgs[target[:i]]; pkg != nil {
			if tf := pkg.Func(target[i+1:]); tf != nil {
				return func(in *Interp, _ *ssa.Function, args []Value) Value {
					return in.callFn(tf, args, nil, in.curFrame)
				}
			}
		}
		panic("go:linkname target not found: " + target)
	}
	if in.P.Nops[name] {
		return func(in *Interp, fn *ssa.Function, _ []Value) Value { return zeroResults(fn) }
	}
	if fn.Blocks == nil && fn.Pkg != nil {
		if f, ok := harnessIntrinsics[fn.Name()]; ok {
			return f
		}
	}
	if f, ok := stdIntrinsics[name]; ok {
		return f
	}
	return nil
}

func nondet(kind string, w int) intrinsic {
	return func(in *Interp, _ *ssa.Function, _ []Value) Value { return in.fresh(kind, w) }
}

var harnessIntrinsics = map[string]intrinsic{
	"nondetBool":   nondet("bool", 0),
	"nondetInt":    nondet("int", 64),
	"nondetInt64":  nondet("int64", 64),
	"nondetInt32":  nondet("int32", 32),
	"nondetInt16":  nondet("int16", 16),
	"nondetInt8":   nondet("int8", 8),
	"nondetUint":   nondet("uint", 64),
	"nondetUint64": nondet("uint64", 64),
	"nondetUint32": nondet("uint32", 32),
	"nondetUint16": nondet("uint16", 16),
	"nondetUint8":  nondet("uint8", 8),
	"nondetByte":   nondet("uint8", 8),
	// nondetString(n): a string of n arbitrary bytes (n concrete)
	"nondetString": func(in *Interp, _ *ssa.Function, args []Value) Value {
		n := in.concreteInt(args[0], "nondetString length")
		b := make([]*sym.Term, n)
		for i := range b {
			b[i] = in.fresh("uint8", 8)
		}
		return mkStr(b)
	},
	"vassume": func(in *Interp, _ *ssa.Function, args []Value) Value {
		in.assume(args[0].(*sym.Term))
		return nil
	},
	"vassert": func(in *Interp, _ *ssa.Function, args []Value) Value {
		msg, _ := args[1].(string)
		in.assertProp(args[0].(*sym.Term), msg)
		return nil
	},
	"vreach": func(in *Interp, _ *ssa.Function, args []Value) Value {
		in.reached[args[0].(string)]++
		return nil
	},
	"vobserve": func(in *Interp, _ *ssa.Function, args []Value) Value {
		in.observed = append(in.observed, args[0].(string)+"="+in.render(args[1]))
		return nil
	},
	// vcapture() starts capturing what the code under test prints; vcaptured() returns it
	"vcapture": func(in *Interp, _ *ssa.Function, args []Value) Value {
		in.userState["stdout"] = []*sym.Term(nil)
		return nil
	},
	"vcaptured": func(in *Interp, _ *ssa.Function, args []Value) Value {
		b, _ := in.userState["stdout"].([]*sym.Term)
		return mkStr(b)
	},
	// vtempdir(): a fresh, existing, empty directory
	"vtempdir": func(in *Interp, _ *ssa.Function, args []Value) Value {
		f := in.fs()
		name := fmt.Sprintf("/vfs/t%d", len(f.files))
		f.files[name] = &vfile{dir: true}
		return name
	},
	// vchoose(n): a value in 0..n-1, forking n ways without solver queries
	"vchoose": func(in *Interp, _ *ssa.Function, args []Value) Value {
		n := in.concreteInt(args[0], "vchoose")
		if n <= 0 {
			panic(pathEnd{"assume_false", "vchoose(0)"})
		}
		if in.P.Cfg.Script != nil {
			t := in.fresh("int", 64)
			v := t.C % uint64(n)
			return sym.BV(v, 64)
		}
		idx := len(in.taken)
		var c int64
		if idx < len(in.prefix) {
			c = in.prefix[idx]
		} else {
			in.decisions++
			for o := int64(1); o < n; o++ {
				alt := append(append(make([]int64, 0, idx+1), in.taken...), o)
				in.pending = append(in.pending, alt)
			}
		}
		in.taken = append(in.taken, c)
		t := sym.BV(uint64(c), 64)
		in.nondets = append(in.nondets, nondetRec{"int", t})
		return t
	},
	// vconcrete(x) forks over the feasible values of x
	"vconcrete": func(in *Interp, _ *ssa.Function, args []Value) Value {
		return in.concretize(args[0].(*sym.Term), 256)
	},
	// vsetfield(ptrToStruct, "name", value) writes a (possibly unexported) field
	"vsetfield": func(in *Interp, _ *ssa.Function, args []Value) Value {
		obj := args[0].(Iface)
		pt := obj.T.Underlying().(*types.Pointer)
		st := pt.Elem().Underlying().(*types.Struct)
		name := args[1].(string)
		p := obj.V.(*Value)
		for i := 0; i < st.NumFields(); i++ {
			if st.Field(i).Name() == name {
				v := args[2].(Iface)
				in.store(&(*p).(Struct)[i], v.V)
				return nil
			}
		}
		panic("vsetfield: no field " + name + " in " + pt.String())
	},
	"vgetfield": func(in *Interp, _ *ssa.Function, args []Value) Value {
		obj := args[0].(Iface)
		pt := obj.T.Underlying().(*types.Pointer)
		st := pt.Elem().Underlying().(*types.Struct)
		name := args[1].(string)
		p := obj.V.(*Value)
		for i := 0; i < st.NumFields(); i++ {
			if st.Field(i).Name() == name {
				return Iface{T: st.Field(i).Type(), V: copyVal((*p).(Struct)[i])}
			}
		}
		panic("vgetfield: no field " + name + " in " + pt.String())
	},
}

// render prints a value for vobserve so that native and symbolic runs can
// be compared textually (concrete values only).
func (in *Interp) render(v Value) string {
	if i, ok := v.(Iface); ok {
		v = i.V
		if i.T != nil {
			if b, ok := i.T.Underlying().(*types.Basic); ok && isInt(b) && !Signed(b) {
				if t, ok := v.(*sym.Term); ok && t.IsConst() {
					return strconv.FormatUint(t.C, 10)
				}
			}
		}
	}
	return renderPlain(v)
}

func renderPlain(v Value) string {
	switch v := v.(type) {
	case *sym.Term:
		if v.IsConst() {
			if v.W == 0 {
				return strconv.FormatBool(v.C != 0)
			}
			return strconv.FormatInt(v.Int(), 10)
		}
		return "<sym>"
	case string:
		return strconv.Quote(v)
	case *SymStr:
		return "<symstr>"
	case Struct:
		var parts []string
		for _, f := range v {
			parts = append(parts, renderPlain(f))
		}
		return "{" + strings.Join(parts, " ") + "}"
	case Array:
		var parts []string
		for _, f := range v {
			parts = append(parts, renderPlain(f))
		}
		return "[" + strings.Join(parts, " ") + "]"
	case []Value:
		var parts []string
		for _, f := range v {
			parts = append(parts, renderPlain(f))
		}
		return "[" + strings.Join(parts, " ") + "]"
	case Iface:
		if v.T == nil {
			return "<nil>"
		}
		return renderPlain(v.V)
	case *Value:
		if v == nil {
			return "<nil>"
		}
		return "&" + renderPlain(*v)
	case float64:
		return strconv.FormatFloat(v, 'g', -1, 64)
	}
	return fmt.Sprintf("<%T>", v)
}

// ---- standard library externals and overrides ----

var stdIntrinsics = map[string]intrinsic{}

func reg(name string, f intrinsic) { stdIntrinsics[name] = f }

func asPtr(v Value) *Value {
	switch v := v.(type) {
	case *Value:
		return v
	case *SymPtr:
		panic(pathEnd{"unsupported", "symbolic pointer passed to an intrinsic"})
	}
	panic(fmt.Sprintf("asPtr: %T", v))
}

func init() {
	// --- sync/atomic and internal/runtime/atomic: sequential semantics ---
	load := func(in *Interp, _ *ssa.Function, a []Value) Value { return in.load(asPtr(a[0])) }
	store := func(in *Interp, _ *ssa.Function, a []Value) Value { in.store(asPtr(a[0]), a[1]); return nil }
	add := func(in *Interp, _ *ssa.Function, a []Value) Value {
		p := asPtr(a[0])
		n := sym.Add((*p).(*sym.Term), a[1].(*sym.Term))
		in.setSlot(p, n)
		return n
	}
	swap := func(in *Interp, _ *ssa.Function, a []Value) Value {
		p := asPtr(a[0])
		old := in.load(p)
		in.store(p, a[1])
		return old
	}
	cas := func(in *Interp, _ *ssa.Function, a []Value) Value {
		p := asPtr(a[0])
		eq := in.valueEq(*p, a[1])
		if in.truth(eq) {
			in.store(p, a[2])
			return sym.True
		}
		return sym.False
	}
	and := func(in *Interp, _ *ssa.Function, a []Value) Value {
		p := asPtr(a[0])
		old := (*p).(*sym.Term)
		in.setSlot(p, sym.BAnd(old, a[1].(*sym.Term)))
		return old
	}
	or := func(in *Interp, _ *ssa.Function, a []Value) Value {
		p := asPtr(a[0])
		old := (*p).(*sym.Term)
		in.setSlot(p, sym.BOr(old, a[1].(*sym.Term)))
		return old
	}
	for _, t := range []string{"Int32", "Int64", "Uint32", "Uint64", "Uintptr", "Pointer"} {
		reg("sync/atomic.Load"+t, load)
		reg("sync/atomic.Store"+t, store)
		reg("sync/atomic.Swap"+t, swap)
		reg("sync/atomic.CompareAndSwap"+t, cas)
		if t != "Pointer" {
			reg("sync/atomic.Add"+t, add)
			reg("sync/atomic.And"+t, and)
			reg("sync/atomic.Or"+t, or)
		}
	}
	for _, n := range []string{"Load", "Load8", "Load64", "Loadp", "Loaduint", "Loaduintptr", "LoadAcq", "LoadAcq64", "LoadAcquintptr", "Loadint32", "Loadint64"} {
		reg("internal/runtime/atomic."+n, load)
	}
	for _, n := range []string{"Store", "Store8", "Store64", "Storeuintptr", "StoreRel", "StoreRel64", "StoreReluintptr", "StorepNoWB", "Storeint32", "Storeint64"} {
		reg("internal/runtime/atomic."+n, store)
	}
	for _, n := range []string{"Xadd", "Xadd64", "Xadduintptr", "Xaddint32", "Xaddint64"} {
		reg("internal/runtime/atomic."+n, add)
	}
	for _, n := range []string{"Xchg", "Xchg64", "Xchguintptr", "Xchgint32", "Xchgint64"} {
		reg("internal/runtime/atomic."+n, swap)
	}
	for _, n := range []string{"Cas", "Cas64", "Casuintptr", "Casp1", "CasRel", "Casint32", "Casint64"} {
		reg("internal/runtime/atomic."+n, cas)
	}

	// --- sync ---
	nop := func(*Interp, *ssa.Function, []Value) Value { return nil }
	reg("sync.runtime_registerPoolCleanup", nop)
	reg("sync.runtime_Semrelease", nop)
	reg("sync.runtime_Semacquire", nop)
	reg("sync.runtime_SemacquireMutex", nop)
	reg("sync.runtime_SemacquireRWMutexR", nop)
	reg("sync.runtime_SemacquireRWMutex", nop)
	reg("internal/sync.runtime_Semrelease", nop)
	reg("internal/sync.runtime_SemacquireMutex", nop)
	// sync.Pool is modelled as a LIFO that never drops an item (the behaviour
	// of a single goroutine between collections): Get returns the value Put
	// last, else New().
	reg("(*sync.Pool).Put", func(in *Interp, fn *ssa.Function, a []Value) Value {
		p := asPtr(a[0])
		if iv, ok := a[1].(Iface); ok && iv.T == nil {
			return nil
		}
		if in.pools == nil {
			in.pools = map[*Value][]Value{}
		}
		old := in.pools[p]
		in.pools[p] = append(old[:len(old):len(old)], a[1])
		in.logUndo(func() { in.pools[p] = old })
		return nil
	})
	reg("(*sync.Pool).Get", func(in *Interp, fn *ssa.Function, a []Value) Value {
		p := asPtr(a[0])
		if items := in.pools[p]; len(items) > 0 {
			v := items[len(items)-1]
			in.pools[p] = items[:len(items)-1]
			in.logUndo(func() { in.pools[p] = items })
			return v
		}
		st := fn.Signature.Recv().Type().Underlying().(*types.Pointer).Elem().Underlying().(*types.Struct)
		for i := 0; i < st.NumFields(); i++ {
			if st.Field(i).Name() == "New" {
				f := (*p).(Struct)[i]
				if ff, ok := f.(*ssa.Function); ok && ff == nil {
					return Iface{}
				}
				return in.call(f, nil, in.curFrame)
			}
		}
		return Iface{}
	})
	for _, n := range []string{"BoolVar", "StringVar", "IntVar", "Int64Var", "UintVar", "Uint64Var", "Float64Var", "DurationVar", "Var", "Parse", "TextVar", "Func", "BoolFunc"} {
		reg("flag."+n, nop)
	}
	// --- math on concrete floats (the engine has no symbolic floats) ---
	f1 := map[string]func(float64) float64{"Abs": math.Abs, "Sqrt": math.Sqrt, "Floor": math.Floor, "Ceil": math.Ceil, "Trunc": math.Trunc,
		"Round": math.Round, "Log": math.Log, "Log2": math.Log2, "Log10": math.Log10, "Exp": math.Exp}
	for name, f := range f1 {
		f := f
		reg("math."+name, func(in *Interp, fn *ssa.Function, a []Value) Value {
			x, ok := a[0].(float64)
			if !ok {
				in.unsupported("math.%s of a symbolic value", fn.Name())
			}
			return f(x)
		})
	}
	f2 := map[string]func(float64, float64) float64{"Pow": math.Pow, "Mod": math.Mod, "Max": math.Max, "Min": math.Min, "Copysign": math.Copysign}
	for name, f := range f2 {
		f := f
		reg("math."+name, func(in *Interp, fn *ssa.Function, a []Value) Value {
			x, ok1 := a[0].(float64)
			y, ok2 := a[1].(float64)
			if !ok1 || !ok2 {
				in.unsupported("math.%s of a symbolic value", fn.Name())
			}
			return f(x, y)
		})
	}
	reg("math.IsNaN", func(in *Interp, fn *ssa.Function, a []Value) Value { return sym.Bool(math.IsNaN(a[0].(float64))) })
	reg("math.IsInf", func(in *Interp, fn *ssa.Function, a []Value) Value {
		sgn, ok := a[1].(*sym.Term)
		if !ok || !sgn.IsConst() {
			in.unsupported("math.IsInf with a symbolic sign")
		}
		return sym.Bool(math.IsInf(a[0].(float64), int(int64(sgn.C))))
	})
	reg("math.Inf", func(in *Interp, fn *ssa.Function, a []Value) Value {
		sgn, ok := a[0].(*sym.Term)
		if !ok || !sgn.IsConst() {
			in.unsupported("math.Inf with a symbolic sign")
		}
		return math.Inf(int(int64(sgn.C)))
	})
	reg("math.NaN", func(in *Interp, fn *ssa.Function, a []Value) Value { return math.NaN() })
	reg("math.Float64bits", func(in *Interp, fn *ssa.Function, a []Value) Value {
		return sym.BV(math.Float64bits(a[0].(float64)), 64)
	})
	reg("math.Float64frombits", func(in *Interp, fn *ssa.Function, a []Value) Value {
		b, ok := a[0].(*sym.Term)
		if !ok || !b.IsConst() {
			in.unsupported("math.Float64frombits of a symbolic value")
		}
		return math.Float64frombits(b.C)
	})
	reg("runtime.KeepAlive", nop)
	reg("runtime.SetFinalizer", nop)
	reg("runtime.GC", nop)
	reg("runtime.Gosched", nop)
	reg("internal/race.Acquire", nop)
	reg("internal/race.Release", nop)
	reg("internal/race.ReleaseMerge", nop)
	reg("internal/race.Read", nop)
	reg("internal/race.Write", nop)
	reg("internal/race.ReadRange", nop)
	reg("internal/race.WriteRange", nop)
	reg("internal/race.Disable", nop)
	reg("internal/race.Enable", nop)
	reg("internal/godebug.(*Setting).Value", func(*Interp, *ssa.Function, []Value) Value { return "" })
	reg("(*internal/godebug.Setting).Value", func(*Interp, *ssa.Function, []Value) Value { return "" })
	reg("(*internal/godebug.Setting).IncNonDefault", nop)
	reg("internal/godebug.New", func(in *Interp, fn *ssa.Function, a []Value) Value {
		p := new(Value)
		*p = Zero(fn.Signature.Results().At(0).Type().Underlying().(*types.Pointer).Elem())
		return p
	})
	reg("os.Getenv", func(*Interp, *ssa.Function, []Value) Value { return "" })
	reg("os.LookupEnv", func(*Interp, *ssa.Function, []Value) Value { return Tuple{"", sym.False} })

	// --- strings.Builder (uses unsafe) ---
	reg("(*strings.Builder).copyCheck", nop)
	reg("(*strings.Builder).String", func(in *Interp, fn *ssa.Function, a []Value) Value {
		p := asPtr(a[0])
		st := fn.Signature.Recv().Type().Underlying().(*types.Pointer).Elem().Underlying().(*types.Struct)
		for i := 0; i < st.NumFields(); i++ {
			if st.Field(i).Name() == "buf" {
				buf := (*p).(Struct)[i].([]Value)
				b := make([]*sym.Term, len(buf))
				for k := range buf {
					b[k] = buf[k].(*sym.Term)
				}
				return mkStr(b)
			}
		}
		panic("strings.Builder layout")
	})
	reg("strings.Clone", func(in *Interp, _ *ssa.Function, a []Value) Value { return a[0] })
	reg("internal/stringslite.Clone", func(in *Interp, _ *ssa.Function, a []Value) Value { return a[0] })
	reg("internal/bytealg.MakeNoZero", func(in *Interp, _ *ssa.Function, a []Value) Value {
		n := in.concreteInt(a[0], "MakeNoZero")
		s := make([]Value, n)
		for i := range s {
			s[i] = sym.BV(0, 8)
		}
		return s
	})
	reg("internal/abi.NoEscape", func(in *Interp, _ *ssa.Function, a []Value) Value { return a[0] })
	reg("internal/abi.Escape", func(in *Interp, _ *ssa.Function, a []Value) Value { return a[0] })

	// --- internal/bytealg (assembly) ---
	idxByte := func(in *Interp, b []*sym.Term, c *sym.Term) Value {
		for i := range b {
			if in.truth(sym.Eq(b[i], c)) {
				return sym.BV(uint64(i), 64)
			}
		}
		return sym.BV(^uint64(0), 64)
	}
	lastIdxByte := func(in *Interp, b []*sym.Term, c *sym.Term) Value {
		for i := len(b) - 1; i >= 0; i-- {
			if in.truth(sym.Eq(b[i], c)) {
				return sym.BV(uint64(i), 64)
			}
		}
		return sym.BV(^uint64(0), 64)
	}
	sliceBytes := func(v Value) []*sym.Term {
		s := v.([]Value)
		b := make([]*sym.Term, len(s))
		for i := range s {
			b[i] = s[i].(*sym.Term)
		}
		return b
	}
	reg("internal/bytealg.IndexByteString", func(in *Interp, _ *ssa.Function, a []Value) Value {
		return idxByte(in, strBytes(a[0]), a[1].(*sym.Term))
	})
	reg("internal/bytealg.IndexByte", func(in *Interp, _ *ssa.Function, a []Value) Value {
		return idxByte(in, sliceBytes(a[0]), a[1].(*sym.Term))
	})
	reg("internal/bytealg.LastIndexByteString", func(in *Interp, _ *ssa.Function, a []Value) Value {
		return lastIdxByte(in, strBytes(a[0]), a[1].(*sym.Term))
	})
	reg("internal/bytealg.LastIndexByte", func(in *Interp, _ *ssa.Function, a []Value) Value {
		return lastIdxByte(in, sliceBytes(a[0]), a[1].(*sym.Term))
	})
	count := func(in *Interp, b []*sym.Term, c *sym.Term) Value {
		n := sym.BV(0, 64)
		for i := range b {
			n = sym.Add(n, sym.Ite(sym.Eq(b[i], c), sym.BV(1, 64), sym.BV(0, 64)))
		}
		return n
	}
	reg("internal/bytealg.CountString", func(in *Interp, _ *ssa.Function, a []Value) Value {
		return count(in, strBytes(a[0]), a[1].(*sym.Term))
	})
	reg("internal/bytealg.Count", func(in *Interp, _ *ssa.Function, a []Value) Value {
		return count(in, sliceBytes(a[0]), a[1].(*sym.Term))
	})
	index := func(in *Interp, h, n []*sym.Term) Value {
		for i := 0; i+len(n) <= len(h); i++ {
			c := sym.True
			for k := range n {
				c = sym.And(c, sym.Eq(h[i+k], n[k]))
			}
			if in.truth(c) {
				return sym.BV(uint64(i), 64)
			}
		}
		return sym.BV(^uint64(0), 64)
	}
	reg("internal/bytealg.IndexString", func(in *Interp, _ *ssa.Function, a []Value) Value {
		return index(in, strBytes(a[0]), strBytes(a[1]))
	})
	reg("internal/bytealg.Index", func(in *Interp, _ *ssa.Function, a []Value) Value {
		return index(in, sliceBytes(a[0]), sliceBytes(a[1]))
	})
	reg("internal/bytealg.Equal", func(in *Interp, _ *ssa.Function, a []Value) Value {
		x, y := sliceBytes(a[0]), sliceBytes(a[1])
		if len(x) != len(y) {
			return sym.False
		}
		c := sym.True
		for i := range x {
			c = sym.And(c, sym.Eq(x[i], y[i]))
		}
		return c
	})
	cmp := func(in *Interp, x, y []*sym.Term) Value {
		n := min(len(x), len(y))
		for i := 0; i < n; i++ {
			if in.truth(sym.Eq(x[i], y[i])) {
				continue
			}
			if in.truth(sym.ULt(x[i], y[i])) {
				return sym.BV(^uint64(0), 64)
			}
			return sym.BV(1, 64)
		}
		switch {
		case len(x) < len(y):
			return sym.BV(^uint64(0), 64)
		case len(x) > len(y):
			return sym.BV(1, 64)
		}
		return sym.BV(0, 64)
	}
	reg("internal/bytealg.Compare", func(in *Interp, _ *ssa.Function, a []Value) Value {
		return cmp(in, sliceBytes(a[0]), sliceBytes(a[1]))
	})
	reg("internal/bytealg.CompareString", func(in *Interp, _ *ssa.Function, a []Value) Value {
		return cmp(in, strBytes(a[0]), strBytes(a[1]))
	})
	reg("strings.Compare", func(in *Interp, _ *ssa.Function, a []Value) Value {
		return cmp(in, strBytes(a[0]), strBytes(a[1]))
	})
	reg("internal/bytealg.Cutover", func(in *Interp, _ *ssa.Function, a []Value) Value {
		return sym.BV(1<<30, 64)
	})

	// --- math/bits on symbolic operands: avoid table lookups ---
	reg("math/bits.Len", bitsLen)
	reg("math/bits.Len64", bitsLen)
	reg("math/bits.Len32", bitsLen)
	reg("math/bits.TrailingZeros64", bitsTZ)
	reg("math/bits.TrailingZeros", bitsTZ)
	reg("math/bits.TrailingZeros32", bitsTZ)

	// --- sort.Slice family: real pdqsort_func / stable_func over an engine swapper ---
	sortSlice := func(target string) intrinsic {
		return func(in *Interp, fn *ssa.Function, a []Value) Value {
			x := a[0].(Iface).V.([]Value)
			n := len(x)
			swap := &NativeFn{Name: "reflectlite.Swapper", F: func(in *Interp, args []Value) Value {
				i := in.concreteInt(args[0], "swap i")
				j := in.concreteInt(args[1], "swap j")
				vi, vj := copyVal(x[i]), copyVal(x[j])
				in.store(&x[i], vj)
				in.store(&x[j], vi)
				return nil
			}}
			ls := Struct{a[1], swap}
			pkg := in.P.Pkgs["sort"]
			switch target {
			case "pdqsort_func":
				in.callFn(pkg.Func("pdqsort_func"), []Value{ls, sym.BV(0, 64), sym.BV(uint64(n), 64), sym.BV(uint64(bits.Len(uint(n))), 64)}, nil, in.curFrame)
			case "stable_func":
				in.callFn(pkg.Func("stable_func"), []Value{ls, sym.BV(uint64(n), 64)}, nil, in.curFrame)
			}
			return nil
		}
	}
	reg("sort.Slice", sortSlice("pdqsort_func"))
	reg("sort.SliceStable", sortSlice("stable_func"))

	// --- reflect: see reflect.go for Value; types are carried as typeKey ---
	reg("reflect.TypeFor", func(in *Interp, fn *ssa.Function, a []Value) Value {
		return in.rtypeOf(fn.TypeArgs()[0])
	})
	reg("reflect.TypeOf", func(in *Interp, fn *ssa.Function, a []Value) Value {
		i := a[0].(Iface)
		if i.T == nil {
			return Iface{}
		}
		return in.rtypeOf(i.T)
	})
	reg("(*reflect.rtype).String", func(in *Interp, fn *ssa.Function, a []Value) Value {
		return types.TypeString(rtypeArg(a[0]), nil)
	})

	// --- fmt ---
	reg("fmt.Sprintf", func(in *Interp, _ *ssa.Function, a []Value) Value {
		return in.sprintf(a[0], a[1].([]Value))
	})
	reg("fmt.Sprint", func(in *Interp, _ *ssa.Function, a []Value) Value {
		return in.sprint(a[0].([]Value), false)
	})
	reg("fmt.Sprintln", func(in *Interp, _ *ssa.Function, a []Value) Value {
		return in.sprint(a[0].([]Value), true)
	})
	writeTo := func(in *Interp, w Value, str Value) {
		wi := w.(Iface)
		m := in.findMethod(wi.T, "Write")
		if m == nil {
			in.unsupported("fmt.Fprint*: writer %v has no Write method", wi.T)
		}
		b := strBytes(str)
		bs := make([]Value, len(b))
		for i := range b {
			bs[i] = b[i]
		}
		in.callFn(m, []Value{wi.V, bs}, nil, in.curFrame)
	}
	reg("fmt.Fprintf", func(in *Interp, _ *ssa.Function, a []Value) Value {
		s := in.sprintf(a[1], a[2].([]Value))
		writeTo(in, a[0], s)
		return Tuple{sym.BV(uint64(strLen(s)), 64), Iface{}}
	})
	reg("fmt.Fprintln", func(in *Interp, _ *ssa.Function, a []Value) Value {
		s := in.sprint(a[1].([]Value), true)
		writeTo(in, a[0], s)
		return Tuple{sym.BV(uint64(strLen(s)), 64), Iface{}}
	})
	reg("fmt.Fprint", func(in *Interp, _ *ssa.Function, a []Value) Value {
		s := in.sprint(a[1].([]Value), false)
		writeTo(in, a[0], s)
		return Tuple{sym.BV(uint64(strLen(s)), 64), Iface{}}
	})
	reg("fmt.Println", func(in *Interp, _ *ssa.Function, a []Value) Value {
		s := in.sprint(a[0].([]Value), true)
		in.captureWrite(strBytes(s))
		return Tuple{sym.BV(uint64(strLen(s)), 64), Iface{}}
	})
	reg("fmt.Printf", func(in *Interp, _ *ssa.Function, a []Value) Value {
		s := in.sprintf(a[0], a[1].([]Value))
		in.captureWrite(strBytes(s))
		return Tuple{sym.BV(uint64(strLen(s)), 64), Iface{}}
	})
	// every *os.File write goes to the capture buffer (os is not initialised; Stdout/Stderr are nil files)
	reg("(*os.File).Write", func(in *Interp, _ *ssa.Function, a []Value) Value {
		bs := a[1].([]Value)
		b := make([]*sym.Term, len(bs))
		for i := range bs {
			b[i] = bs[i].(*sym.Term)
		}
		in.captureWrite(b)
		return Tuple{sym.BV(uint64(len(b)), 64), Iface{}}
	})
	reg("(*os.File).WriteString", func(in *Interp, _ *ssa.Function, a []Value) Value {
		b := strBytes(a[1])
		in.captureWrite(b)
		return Tuple{sym.BV(uint64(len(b)), 64), Iface{}}
	})
	reg("os.Getwd", func(in *Interp, _ *ssa.Function, a []Value) Value {
		return Tuple{"/verif-cwd", Iface{}}
	})
	reg("fmt.Errorf", func(in *Interp, _ *ssa.Function, a []Value) Value {
		return in.newError(in.sprintf(a[0], a[1].([]Value)))
	})
}

// findMethod looks up an exported method by name in the method set of T.
func (in *Interp) findMethod(T types.Type, name string) *ssa.Function {
	ms := in.P.Prog.MethodSets.MethodSet(T)
	for i := 0; i < ms.Len(); i++ {
		sel := ms.At(i)
		if sel.Obj().Name() == name {
			return in.P.Prog.MethodValue(sel)
		}
	}
	return nil
}

func (in *Interp) captureWrite(b []*sym.Term) {
	old, _ := in.userState["stdout"].([]*sym.Term)
	in.userState["stdout"] = append(append([]*sym.Term(nil), old...), b...)
}

func (in *Interp) newError(msg Value) Value {
	pkg := in.P.Pkgs["errors"]
	if pkg == nil {
		in.unsupported("package errors not loaded")
	}
	et := pkg.Type("errorString").Object().Type()
	p := new(Value)
	*p = Struct{msg}
	return Iface{T: types.NewPointer(et), V: p}
}

func bitsLen(in *Interp, fn *ssa.Function, a []Value) Value {
	x := a[0].(*sym.Term)
	w := int(x.W)
	if x.IsConst() {
		return sym.BV(uint64(bits.Len64(x.C)), 64)
	}
	// len = number of leading positions: ite chain from the top bit
	r := sym.BV(0, 64)
	for i := 0; i < w; i++ {
		bit := sym.Eq(sym.Extract(sym.LShr(x, sym.BV(uint64(i), w)), 0, 0), sym.BV(1, 1))
		r = sym.Ite(bit, sym.BV(uint64(i+1), 64), r)
	}
	return r
}

func bitsTZ(in *Interp, fn *ssa.Function, a []Value) Value {
	x := a[0].(*sym.Term)
	w := int(x.W)
	if x.IsConst() {
		if x.C == 0 {
			return sym.BV(uint64(w), 64)
		}
		return sym.BV(uint64(bits.TrailingZeros64(x.C)), 64)
	}
	r := sym.BV(uint64(w), 64)
	for i := w - 1; i >= 0; i-- {
		bit := sym.Eq(sym.Extract(sym.LShr(x, sym.BV(uint64(i), w)), 0, 0), sym.BV(1, 1))
		r = sym.Ite(bit, sym.BV(uint64(i), 64), r)
	}
	return r
}

// ---- fmt: rendered only for concrete arguments (strings may carry
// symbolic bytes through %s / %v) ----

func (in *Interp) fmtArg(v Value, verb byte) []*sym.Term {
	if i, ok := v.(Iface); ok {
		if i.T == nil {
			return strBytes("<nil>")
		}
		// error / Stringer
		if verb == 'v' || verb == 's' || verb == 'q' {
			if m := in.findMethod(i.T, "Error"); m != nil && m.Signature.Params().Len() == 0 {
				return in.fmtArg(in.callFn(m, []Value{i.V}, nil, in.curFrame), verb)
			}
			if m := in.findMethod(i.T, "String"); m != nil && m.Signature.Params().Len() == 0 && m.Signature.Results().Len() == 1 {
				return in.fmtArg(in.callFn(m, []Value{i.V}, nil, in.curFrame), verb)
			}
		}
		unsigned := false
		if b, ok := i.T.Underlying().(*types.Basic); ok && isInt(b) && !Signed(b) {
			unsigned = true
		}
		if t, ok := i.V.(*sym.Term); ok && t.W > 0 {
			if !t.IsConst() {
				in.unsupported("fmt: symbolic integer operand")
			}
			base := 10
			switch verb {
			case 'x':
				base = 16
			case 'o':
				base = 8
			case 'b':
				base = 2
			case 'c':
				return strBytes(string(rune(t.Int())))
			}
			if unsigned {
				return strBytes(strconv.FormatUint(t.C, base))
			}
			return strBytes(strconv.FormatInt(t.Int(), base))
		}
		v = i.V
	}
	if verb == 'x' {
		var bs []Value
		switch x := v.(type) {
		case Array:
			bs = x
		case []Value:
			bs = x
		}
		if bs != nil || v != nil {
			if _, ok := v.(Array); ok || bs != nil {
				var out []*sym.Term
				hexd := func(n *sym.Term) *sym.Term {
					return sym.Ite(sym.ULt(n, sym.BV(10, 8)), sym.Add(n, sym.BV('0', 8)), sym.Add(n, sym.BV('a'-10, 8)))
				}
				for _, e := range bs {
					t, ok := e.(*sym.Term)
					if !ok || t.W != 8 {
						in.unsupported("fmt: %%x of non-byte sequence")
					}
					out = append(out, hexd(sym.LShr(t, sym.BV(4, 8))), hexd(sym.BAnd(t, sym.BV(15, 8))))
				}
				return out
			}
		}
	}
	switch v := v.(type) {
	case string:
		if verb == 'q' {
			return strBytes(strconv.Quote(v))
		}
		if verb == 'x' {
			return strBytes(fmt.Sprintf("%x", v))
		}
		return strBytes(v)
	case *SymStr:
		if verb == 'q' {
			return in.quoteBytes(v.B)
		}
		return v.B
	case *sym.Term:
		if !v.IsConst() {
			in.unsupported("fmt: symbolic operand")
		}
		if v.W == 0 {
			return strBytes(strconv.FormatBool(v.C != 0))
		}
		return strBytes(strconv.FormatInt(v.Int(), 10))
	case float64:
		return strBytes(strconv.FormatFloat(v, 'g', -1, 64))
	case []Value:
		// []string with %s / %v: [a b c]
		if (verb == 's' || verb == 'v' || verb == 'q') && (len(v) == 0 || isStringValue(v[0])) {
			out := []*sym.Term{sym.BV('[', 8)}
			for i, e := range v {
				if i > 0 {
					out = append(out, sym.BV(' ', 8))
				}
				if verb == 'q' {
					out = append(out, in.quoteBytes(strBytes(e))...)
				} else {
					out = append(out, strBytes(e)...)
				}
			}
			return append(out, sym.BV(']', 8))
		}
		// []any (non-nil elements) with %s / %v: each element under the same verb
		if (verb == 's' || verb == 'v') && len(v) > 0 {
			all := true
			for _, e := range v {
				if iv, ok := e.(Iface); !ok || iv.T == nil {
					all = false
				}
			}
			if all {
				out := []*sym.Term{sym.BV('[', 8)}
				for i, e := range v {
					if i > 0 {
						out = append(out, sym.BV(' ', 8))
					}
					out = append(out, in.fmtArg(e, verb)...)
				}
				return append(out, sym.BV(']', 8))
			}
		}
		// []byte with %s / %x
		if verb == 's' {
			var b []*sym.Term
			for _, e := range v {
				t, ok := e.(*sym.Term)
				if !ok || t.W != 8 {
					in.unsupported("fmt: %%s of non-byte slice")
				}
				b = append(b, t)
			}
			return b
		}
	}
	in.unsupported("fmt: operand of type %T with verb %%%c", v, verb)
	return nil
}

func (in *Interp) sprintf(format Value, args []Value) Value {
	f, ok := format.(string)
	if !ok {
		in.unsupported("fmt: symbolic format string")
	}
	var out []*sym.Term
	ai := 0
	for i := 0; i < len(f); i++ {
		c := f[i]
		if c != '%' {
			out = append(out, sym.BV(uint64(c), 8))
			continue
		}
		i++
		if i >= len(f) {
			break
		}
		if f[i] == '%' {
			out = append(out, sym.BV('%', 8))
			continue
		}
		// flags/width: only plain verbs and %0Nd / %Nd on concrete ints are supported
		start := i
		for i < len(f) && strings.IndexByte("+-# 0123456789.", f[i]) >= 0 {
			i++
		}
		if i >= len(f) {
			break
		}
		verb := f[i]
		spec := f[start:i]
		if ai >= len(args) {
			out = append(out, strBytes("%!"+string(verb)+"(MISSING)")...)
			continue
		}
		arg := args[ai]
		ai++
		if spec == "#" && verb == 'v' {
			if iv, ok := arg.(Iface); ok && iv.T != nil {
				out = append(out, in.goSyntax(iv.V, iv.T)...)
				continue
			}
		}
		if spec != "" {
			// fall back to native formatting for concrete scalars
			var native any
			av := arg
			unsigned := false
			if iv, ok := av.(Iface); ok {
				av = iv.V
				if iv.T != nil {
					if b, ok := iv.T.Underlying().(*types.Basic); ok && isInt(b) && !Signed(b) {
						unsigned = true
					}
				}
			}
			switch x := av.(type) {
			case *sym.Term:
				if !x.IsConst() {
					in.unsupported("fmt: flags on symbolic operand")
				}
				native = x.Int()
				if unsigned {
					native = x.C
				}
			case string:
				native = x
			case float64:
				native = x
			default:
				in.unsupported("fmt: flags %q on %T", spec, av)
			}
			out = append(out, strBytes(fmt.Sprintf("%"+spec+string(verb), native))...)
			continue
		}
		out = append(out, in.fmtArg(arg, verb)...)
	}
	return mkStr(out)
}

func isStringValue(v Value) bool {
	switch v.(type) {
	case string, *SymStr:
		return true
	}
	return false
}

// quoteBytes is strconv.Quote for strings whose symbolic bytes are assumed
// to be printable ASCII other than the quote and the backslash (the
// assumption is added to the path condition).
func (in *Interp) quoteBytes(b []*sym.Term) []*sym.Term {
	out := []*sym.Term{sym.BV('"', 8)}
	for _, x := range b {
		if x.IsConst() {
			out = append(out, strBytes(strings.Trim(strconv.Quote(string(rune(byte(x.C)))), "\""))...)
			continue
		}
		in.assume(sym.And(sym.And(sym.ULe(sym.BV(0x20, 8), x), sym.ULt(x, sym.BV(0x7f, 8))),
			sym.And(sym.Not(sym.Eq(x, sym.BV('"', 8))), sym.Not(sym.Eq(x, sym.BV('\\', 8))))))
		out = append(out, x)
	}
	return append(out, sym.BV('"', 8))
}

// goSyntax renders %#v for strings, integers, booleans, slices and structs.
func (in *Interp) goSyntax(v Value, t types.Type) []*sym.Term {
	ts := types.TypeString(t, func(p *types.Package) string { return p.Name() })
	switch u := t.Underlying().(type) {
	case *types.Basic:
		switch x := v.(type) {
		case string:
			return strBytes(strconv.Quote(x))
		case *SymStr:
			return in.quoteBytes(x.B)
		case *sym.Term:
			if !x.IsConst() {
				in.unsupported("fmt: %%#v of symbolic number")
			}
			if x.W == 0 {
				return strBytes(strconv.FormatBool(x.C != 0))
			}
			if Signed(u) {
				return strBytes(strconv.FormatInt(x.Int(), 10))
			}
			return strBytes("0x" + strconv.FormatUint(x.C, 16))
		}
	case *types.Slice:
		xs := v.([]Value)
		if xs == nil {
			return strBytes(ts + "(nil)")
		}
		out := strBytes(ts + "{")
		for i, e := range xs {
			if i > 0 {
				out = append(out, strBytes(", ")...)
			}
			out = append(out, in.goSyntax(e, u.Elem())...)
		}
		return append(out, sym.BV('}', 8))
	case *types.Struct:
		xs := v.(Struct)
		out := strBytes(ts + "{")
		for i := range xs {
			if i > 0 {
				out = append(out, strBytes(", ")...)
			}
			out = append(out, strBytes(u.Field(i).Name()+":")...)
			out = append(out, in.goSyntax(xs[i], u.Field(i).Type())...)
		}
		return append(out, sym.BV('}', 8))
	}
	in.unsupported("fmt: %%#v of %s", ts)
	return nil
}

func (in *Interp) sprint(args []Value, ln bool) Value {
	var out []*sym.Term
	for i, a := range args {
		if i > 0 && ln {
			out = append(out, sym.BV(' ', 8))
		}
		out = append(out, in.fmtArg(a, 'v')...)
	}
	if ln {
		out = append(out, sym.BV('\n', 8))
	}
	return mkStr(out)
}
