package exec

import (
	"fmt"
	"time"

	"verif/smt"
	"verif/sym"
)

func (in *Interp) replaying() bool { return len(in.taken) < len(in.prefix) }

func (in *Interp) fresh(kind string, w int) *sym.Term {
	if in.initDepth > 0 {
		panic("nondeterministic value requested during package initialisation")
	}
	idx := len(in.nondets)
	if in.P.Cfg.Script != nil {
		// concrete (conformance / replay) mode
		var v uint64
		if idx < len(in.P.Cfg.Script) {
			v = in.P.Cfg.Script[idx]
		}
		var t *sym.Term
		if w == 0 {
			t = sym.Bool(v != 0)
		} else {
			t = sym.BV(v, w)
		}
		in.nondets = append(in.nondets, nondetRec{kind, t})
		return t
	}
	name := fmt.Sprintf("%s!%d", kind, idx)
	t := sym.Var(name, w)
	in.ss.Declare(t)
	in.nondets = append(in.nondets, nondetRec{kind, t})
	return t
}

func (in *Interp) addPC(c *sym.Term) {
	in.ss.Assert(c)
	in.pc = append(in.pc, c)
}

func (in *Interp) check(c *sym.Term) smt.Result {
	r := in.ss.Check(c)
	if r == smt.Unknown {
		in.unknowns++
	}
	return r
}

// truth returns the truth value of a boolean, forking when it is symbolic.
func (in *Interp) truth(c *sym.Term) bool {
	if c.IsConst() {
		return c.C != 0
	}
	return in.decide(c)
}

// decide picks a feasible truth value for c, queues the other one if it is
// feasible too, and extends the path condition.
func (in *Interp) decide(c *sym.Term) bool {
	if c.IsConst() {
		return c.C != 0
	}
	if in.initDepth > 0 {
		panic("symbolic branch during package initialisation")
	}
	idx := len(in.taken)
	var choice int64
	if idx < len(in.prefix) {
		choice = in.prefix[idx]
	} else {
		in.decisions++
		if in.decisions > in.P.Cfg.MaxDecisions {
			panic(pathEnd{"bound_exceeded", fmt.Sprintf("more than %d symbolic decisions on one path", in.P.Cfg.MaxDecisions)})
		}
		rf := in.check(sym.Not(c))
		if rf == smt.Unsat {
			choice = 1
		} else {
			rt := in.check(c)
			switch {
			case rt == smt.Unsat:
				choice = 0
			default:
				choice = 1
				alt := append(append(make([]int64, 0, idx+1), in.taken...), 0)
				in.pending = append(in.pending, alt)
			}
		}
	}
	in.taken = append(in.taken, choice)
	if choice == 1 {
		in.addPC(c)
		return true
	}
	in.addPC(sym.Not(c))
	return false
}

// enumerate lists up to limit+1 feasible values of t under the path
// condition.
func (in *Interp) enumerate(t *sym.Term, limit int) []uint64 {
	var vals []uint64
	blocking := sym.True
	for len(vals) <= limit {
		r, vs := in.ss.Values(blocking, []*sym.Term{t})
		if r != smt.Sat {
			if r == smt.Unknown {
				in.unknowns++
			}
			break
		}
		vals = append(vals, vs[0])
		blocking = sym.And(blocking, sym.Not(sym.Eq(t, sym.BV(vs[0], int(t.W)))))
	}
	return vals
}

// concretize forks over every feasible value of t (at most limit).
func (in *Interp) concretize(t *sym.Term, limit int) *sym.Term {
	if t.IsConst() {
		return t
	}
	if in.initDepth > 0 {
		panic("symbolic value concretised during package initialisation")
	}
	idx := len(in.taken)
	var v uint64
	if idx < len(in.prefix) {
		v = uint64(in.prefix[idx])
	} else {
		in.decisions++
		vals := in.enumerate(t, limit)
		if len(vals) == 0 {
			panic(pathEnd{"infeasible", "no value for " + t.String()})
		}
		if len(vals) > limit {
			in.unsupported("more than %d feasible values for a value that must be concrete: %s\n%s", limit, t.String(), in.stackTrace())
		}
		for _, o := range vals[1:] {
			alt := append(append(make([]int64, 0, idx+1), in.taken...), int64(o))
			in.pending = append(in.pending, alt)
		}
		v = vals[0]
	}
	in.taken = append(in.taken, int64(v))
	c := sym.BV(v, int(t.W))
	in.addPC(sym.Eq(t, c))
	return c
}

// tryConcretize is concretize that gives up (keeping t symbolic) when t
// has more than limit feasible values.
func (in *Interp) tryConcretize(t *sym.Term, limit int) (*sym.Term, bool) {
	if t.IsConst() {
		return t, true
	}
	idx := len(in.taken)
	if idx < len(in.prefix) {
		in.taken = append(in.taken, in.prefix[idx])
		if in.prefix[idx] == 0 {
			return nil, false
		}
		return in.concretize(t, limit), true
	}
	vals := in.enumerate(t, limit)
	if len(vals) > limit || len(vals) == 0 {
		in.taken = append(in.taken, 0)
		return nil, false
	}
	in.taken = append(in.taken, 1)
	// re-use the enumeration: push alternatives directly
	idx = len(in.taken)
	for _, o := range vals[1:] {
		alt := append(append(make([]int64, 0, idx+1), in.taken...), int64(o))
		in.pending = append(in.pending, alt)
	}
	in.taken = append(in.taken, int64(vals[0]))
	c := sym.BV(vals[0], int(t.W))
	in.addPC(sym.Eq(t, c))
	return c, true
}

func (in *Interp) assume(c *sym.Term) {
	if c.IsConst() {
		if c.C == 0 {
			panic(pathEnd{"assume_false", ""})
		}
		return
	}
	if !in.replaying() {
		if in.check(c) == smt.Unsat {
			panic(pathEnd{"assume_false", ""})
		}
	}
	in.addPC(c)
}

func (in *Interp) scriptFromModel(m map[string]uint64) []ScriptVal {
	var s []ScriptVal
	for _, nd := range in.nondets {
		v := nd.t.C
		if nd.t.Op == sym.OpVar {
			v = m[nd.t.Name]
		}
		s = append(s, ScriptVal{Kind: nd.kind, Name: nd.t.Name, Val: v})
	}
	return s
}

func (in *Interp) vars() []*sym.Term {
	var vs []*sym.Term
	for _, nd := range in.nondets {
		if nd.t.Op == sym.OpVar {
			vs = append(vs, nd.t)
		}
	}
	return vs
}

func (in *Interp) recordViolation(kind, msg string, m map[string]uint64) {
	in.viols = append(in.viols, Violation{
		Harness: in.harness, Msg: msg, Kind: kind, Model: m,
		Script: in.scriptFromModel(m), Path: append([]int64(nil), in.taken...),
		Observe: append([]string(nil), in.observed...),
	})
}

// assertProp decides an assertion under the current path condition.
func (in *Interp) assertProp(c *sym.Term, msg string) {
	in.asserts++
	if c.IsTrue() {
		return
	}
	if in.P.Cfg.Script != nil {
		if c.IsFalse() {
			in.recordViolation("assert", msg, nil)
		}
		return
	}
	if in.replaying() {
		in.addPC(c)
		return
	}
	neg := sym.Not(c)
	r, m := in.ss.Model(neg, in.vars())
	if r == smt.Unknown {
		in.unknowns++
		in.assertsUn++
		// portfolio: self-contained script to the other solvers
		script := in.ss.Script(neg)
		r = in.portfolio(script)
		if r == smt.Sat {
			// need a model: ask again with more time through one-shot z3-new
			m = smt.OneShotModel("z3-new", in.ss.ScriptNoCheck(neg), in.vars(), time.Duration(in.P.Cfg.HeavyTimeoutMs)*time.Millisecond)
			if m == nil {
				r = smt.Unknown
			}
		}
		if r == smt.Unknown {
			in.inconclusive = append(in.inconclusive, msg)
			in.addPC(c)
			return
		}
		in.assertsUn--
	}
	switch r {
	case smt.Sat:
		in.recordViolation("assert", msg, m)
		if in.check(c) == smt.Unsat {
			panic(pathEnd{"violation", msg})
		}
		in.addPC(c)
	case smt.Unsat:
		if in.P.Cfg.CrossCheckEvery > 0 && in.asserts%in.P.Cfg.CrossCheckEvery == 0 {
			in.crossCheck(in.ss.Script(neg), smt.Unsat)
		}
		in.addPC(c)
	}
}

func (in *Interp) portfolio(script string) smt.Result {
	to := time.Duration(in.P.Cfg.HeavyTimeoutMs) * time.Millisecond
	type res struct{ r smt.Result }
	kinds := []string{"cvc5", "z3-new", "z3"}
	ch := make(chan smt.Result, len(kinds))
	for _, k := range kinds {
		go func(k string) { ch <- smt.OneShot(k, script, to) }(k)
	}
	out := smt.Unknown
	for range kinds {
		r := <-ch
		if r != smt.Unknown {
			out = r
			break
		}
	}
	return out
}

func (in *Interp) crossCheck(script string, want smt.Result) {
	to := time.Duration(in.P.Cfg.HeavyTimeoutMs) * time.Millisecond
	other := "cvc5"
	got := smt.OneShot(other, script, to)
	in.P.noteCross(got != smt.Unknown, got != smt.Unknown && got != want)
}
