package exec

// Engine-native environment models used by the cache checks:
//   - an in-memory file system behind the os / *os.File entry points the
//     code under test uses (per path; lives in Interp.userState),
//   - SHA-256 as a collision-free function of the written bytes: the real
//     digest for concrete input, an injective padding encoding for short
//     inputs with symbolic bytes,
//   - time.Now as a fixed instant.
// File names must be concrete (they are: ids in the harnesses are concrete
// or derive from concrete contents); file contents may be symbolic.

import (
	"crypto/sha256"
	"fmt"
	"go/types"
	"sort"
	"strings"

	"golang.org/x/tools/go/ssa"

	"verif/sym"
)

type vfile struct {
	data  []*sym.Term
	mtime int64
	dir   bool
}

type vhandle struct {
	name   string
	pos    int
	closed bool
	write  bool
}

type vfs struct {
	files   map[string]*vfile
	handles map[*Value]*vhandle
	digests map[*Value][]*sym.Term
	hashes  []digestRec
	clock   int64
}

func (in *Interp) fs() *vfs {
	if f, ok := in.userState["vfs"].(*vfs); ok {
		return f
	}
	f := &vfs{files: map[string]*vfile{"/vfs": {dir: true}}, handles: map[*Value]*vhandle{}, digests: map[*Value][]*sym.Term{}, clock: 1_700_000_000}
	in.userState["vfs"] = f
	return f
}

func (in *Interp) concreteName(v Value) string {
	s, ok := v.(string)
	if !ok {
		in.unsupported("file name with symbolic bytes")
	}
	return strings.TrimRight(s, "/")
}

func (in *Interp) pathError(op, name, msg string) Value {
	return in.newError(op + " " + name + ": " + msg)
}

func (in *Interp) timeValue(sec int64) Value {
	// time.Time{wall, ext, loc}: wall without the monotonic flag, ext = seconds since year 1
	const unixToInternal = (1969*365 + 1969/4 - 1969/100 + 1969/400) * 86400
	return Struct{sym.BV(0, 64), sym.BV(uint64(sec+unixToInternal), 64), (*Value)(nil)}
}

func (in *Interp) newFile(fn *ssa.Function, resultIdx int, h *vhandle) Value {
	ft := fn.Signature.Results().At(resultIdx).Type().Underlying().(*types.Pointer).Elem()
	p := new(Value)
	*p = Zero(ft)
	in.fs().handles[p] = h
	return p
}

func (in *Interp) handle(v Value) *vhandle {
	p, _ := v.(*Value)
	h := in.fs().handles[p]
	if h == nil {
		in.unsupported("operation on a file the model did not open (os.Stdout/Stderr are handled elsewhere)")
	}
	return h
}

func bytesOf(v Value) []*sym.Term {
	s := v.([]Value)
	b := make([]*sym.Term, len(s))
	for i := range s {
		b[i] = s[i].(*sym.Term)
	}
	return b
}

type digestRec struct {
	in, out []*sym.Term
}

// hashBytes is the SHA-256 model: the real digest for concrete input; for
// input with symbolic bytes 32 fresh bytes constrained to behave like a
// collision-free function of the input with respect to every other digest
// computed on the same path (equal inputs <=> equal digests).
func hashBytes(in *Interp, b []*sym.Term) []*sym.Term {
	f := in.fs()
	concrete := true
	for _, x := range b {
		if !x.IsConst() {
			concrete = false
			break
		}
	}
	out := make([]*sym.Term, 32)
	if concrete {
		raw := make([]byte, len(b))
		for i, x := range b {
			raw[i] = byte(x.C)
		}
		sum := sha256.Sum256(raw)
		for i := range sum {
			out[i] = sym.BV(uint64(sum[i]), 8)
		}
	} else {
		if in.ss == nil {
			in.unsupported("SHA-256 of symbolic bytes outside a symbolic run")
		}
		k := len(f.hashes)
		for i := range out {
			v := sym.Var(fmt.Sprintf("sha!%d!%d", k, i), 8)
			in.ss.Declare(v)
			out[i] = v
		}
	}
	for _, r := range f.hashes {
		rc := true
		for _, x := range r.in {
			if !x.IsConst() {
				rc = false
				break
			}
		}
		if rc && concrete {
			continue
		}
		eqIn := sym.False
		if len(r.in) == len(b) {
			eqIn = sym.True
			for i := range b {
				eqIn = sym.And(eqIn, sym.Eq(b[i], r.in[i]))
			}
		}
		eqOut := sym.True
		for i := range out {
			eqOut = sym.And(eqOut, sym.Eq(out[i], r.out[i]))
		}
		in.addPC(sym.Eq(eqIn, eqOut))
	}
	f.hashes = append(f.hashes, digestRec{append([]*sym.Term(nil), b...), out})
	return out
}

func init() {
	okErr := func(v Value) Value { return Tuple{v, Iface{}} }

	reg("time.Now", func(in *Interp, _ *ssa.Function, a []Value) Value {
		f := in.fs()
		f.clock++
		return in.timeValue(f.clock)
	})

	stat := func(in *Interp, fn *ssa.Function, name string) Value {
		f := in.fs().files[name]
		if f == nil {
			return Tuple{Iface{}, in.pathError("stat", name, "no such file or directory")}
		}
		rp := in.P.Pkgs["os"]
		st := rp.Type("fileStat").Object().Type()
		p := new(Value)
		fs := Zero(st).(Struct)
		fs[0] = name
		fs[1] = sym.BV(uint64(len(f.data)), 64)
		mode := uint64(0o644)
		if f.dir {
			mode = 1<<31 | 0o755
		}
		fs[2] = sym.BV(mode, 32)
		fs[3] = in.timeValue(f.mtime)
		*p = fs
		return Tuple{Iface{T: types.NewPointer(st), V: p}, Iface{}}
	}
	reg("os.Stat", func(in *Interp, fn *ssa.Function, a []Value) Value { return stat(in, fn, in.concreteName(a[0])) })
	reg("os.Lstat", func(in *Interp, fn *ssa.Function, a []Value) Value { return stat(in, fn, in.concreteName(a[0])) })
	reg("(*os.File).Stat", func(in *Interp, fn *ssa.Function, a []Value) Value { return stat(in, fn, in.handle(a[0]).name) })
	reg("(*os.File).Name", func(in *Interp, fn *ssa.Function, a []Value) Value { return in.handle(a[0]).name })

	reg("os.Open", func(in *Interp, fn *ssa.Function, a []Value) Value {
		name := in.concreteName(a[0])
		if in.fs().files[name] == nil {
			return Tuple{(*Value)(nil), in.pathError("open", name, "no such file or directory")}
		}
		return okErr(in.newFile(fn, 0, &vhandle{name: name}))
	})
	reg("os.OpenFile", func(in *Interp, fn *ssa.Function, a []Value) Value {
		name := in.concreteName(a[0])
		flag := in.concreteInt(a[1], "open flags")
		const oCreate, oTrunc, oAppend, oExcl = 0x40, 0x200, 0x400, 0x80
		f := in.fs()
		vf := f.files[name]
		if vf == nil {
			if flag&oCreate == 0 {
				return Tuple{(*Value)(nil), in.pathError("open", name, "no such file or directory")}
			}
			dir := name[:strings.LastIndex(name, "/")]
			if d := f.files[dir]; d == nil || !d.dir {
				return Tuple{(*Value)(nil), in.pathError("open", name, "no such file or directory")}
			}
			vf = &vfile{mtime: f.clock}
			f.files[name] = vf
		} else if flag&oExcl != 0 && flag&oCreate != 0 {
			return Tuple{(*Value)(nil), in.pathError("open", name, "file exists")}
		}
		if flag&oTrunc != 0 {
			vf.data = nil
		}
		h := &vhandle{name: name, write: flag&3 != 0}
		if flag&oAppend != 0 {
			h.pos = len(vf.data)
		}
		return okErr(in.newFile(fn, 0, h))
	})
	reg("os.Remove", func(in *Interp, fn *ssa.Function, a []Value) Value {
		name := in.concreteName(a[0])
		if in.fs().files[name] == nil {
			return in.pathError("remove", name, "no such file or directory")
		}
		delete(in.fs().files, name)
		return Iface{}
	})
	reg("os.RemoveAll", func(in *Interp, fn *ssa.Function, a []Value) Value {
		name := in.concreteName(a[0])
		for k := range in.fs().files {
			if k == name || strings.HasPrefix(k, name+"/") {
				delete(in.fs().files, k)
			}
		}
		return Iface{}
	})
	reg("os.Chtimes", func(in *Interp, fn *ssa.Function, a []Value) Value {
		name := in.concreteName(a[0])
		vf := in.fs().files[name]
		if vf == nil {
			return in.pathError("chtimes", name, "no such file or directory")
		}
		// modification time = seconds of the third argument
		if t, ok := a[2].(Struct); ok {
			if ext, ok := t[1].(*sym.Term); ok && ext.IsConst() {
				const unixToInternal = (1969*365 + 1969/4 - 1969/100 + 1969/400) * 86400
				vf.mtime = int64(ext.C) - unixToInternal
			}
		}
		return Iface{}
	})
	mkdirAll := func(in *Interp, fn *ssa.Function, a []Value) Value {
		name := in.concreteName(a[0])
		parts := strings.Split(name, "/")
		cur := ""
		for _, p := range parts[1:] {
			cur += "/" + p
			if in.fs().files[cur] == nil {
				in.fs().files[cur] = &vfile{dir: true}
			}
		}
		return Iface{}
	}
	reg("os.MkdirAll", mkdirAll)
	reg("os.Mkdir", mkdirAll)
	reg("os.ReadFile", func(in *Interp, fn *ssa.Function, a []Value) Value {
		name := in.concreteName(a[0])
		vf := in.fs().files[name]
		if vf == nil || vf.dir {
			return Tuple{[]Value(nil), in.pathError("open", name, "no such file or directory")}
		}
		out := make([]Value, len(vf.data))
		for i, b := range vf.data {
			out[i] = b
		}
		return okErr(out)
	})
	reg("os.WriteFile", func(in *Interp, fn *ssa.Function, a []Value) Value {
		name := in.concreteName(a[0])
		f := in.fs()
		dir := name[:strings.LastIndex(name, "/")]
		if d := f.files[dir]; d == nil || !d.dir {
			return in.pathError("open", name, "no such file or directory")
		}
		f.files[name] = &vfile{data: bytesOf(a[1]), mtime: f.clock}
		return Iface{}
	})
	reg("os.Truncate", func(in *Interp, fn *ssa.Function, a []Value) Value {
		name := in.concreteName(a[0])
		vf := in.fs().files[name]
		if vf == nil {
			return in.pathError("truncate", name, "no such file or directory")
		}
		n := int(in.concreteInt(a[1], "truncate size"))
		for len(vf.data) < n {
			vf.data = append(vf.data, sym.BV(0, 8))
		}
		vf.data = vf.data[:n:n]
		return Iface{}
	})

	reg("(*os.File).Read", func(in *Interp, fn *ssa.Function, a []Value) Value {
		h := in.handle(a[0])
		buf := a[1].([]Value)
		vf := in.fs().files[h.name]
		if vf == nil {
			vf = &vfile{}
		}
		if len(buf) == 0 {
			return Tuple{sym.BV(0, 64), Iface{}}
		}
		if h.pos >= len(vf.data) {
			return Tuple{sym.BV(0, 64), in.eofError()}
		}
		n := min(len(buf), len(vf.data)-h.pos)
		for i := 0; i < n; i++ {
			in.setSlot(&buf[i], vf.data[h.pos+i])
		}
		h.pos += n
		return Tuple{sym.BV(uint64(n), 64), Iface{}}
	})
	write := func(in *Interp, h *vhandle, b []*sym.Term) Value {
		f := in.fs()
		vf := f.files[h.name]
		if vf == nil {
			vf = &vfile{}
			f.files[h.name] = vf
		}
		nd := append([]*sym.Term(nil), vf.data...)
		for len(nd) < h.pos+len(b) {
			nd = append(nd, sym.BV(0, 8))
		}
		copy(nd[h.pos:], b)
		vf.data = nd
		vf.mtime = f.clock
		h.pos += len(b)
		return Tuple{sym.BV(uint64(len(b)), 64), Iface{}}
	}
	regWrite := func(in *Interp, fn *ssa.Function, a []Value) Value {
		p, _ := a[0].(*Value)
		if in.fs().handles[p] == nil {
			in.captureWrite(bytesOf(a[1])) // os.Stdout / os.Stderr
			return Tuple{sym.BV(uint64(len(a[1].([]Value))), 64), Iface{}}
		}
		return write(in, in.handle(a[0]), bytesOf(a[1]))
	}
	reg("(*os.File).Write", regWrite)
	reg("(*os.File).WriteString", func(in *Interp, fn *ssa.Function, a []Value) Value {
		p, _ := a[0].(*Value)
		if in.fs().handles[p] == nil {
			in.captureWrite(strBytes(a[1]))
			return Tuple{sym.BV(uint64(strLen(a[1])), 64), Iface{}}
		}
		return write(in, in.handle(a[0]), strBytes(a[1]))
	})
	reg("(*os.File).Truncate", func(in *Interp, fn *ssa.Function, a []Value) Value {
		h := in.handle(a[0])
		vf := in.fs().files[h.name]
		if vf == nil {
			return in.pathError("truncate", h.name, "no such file or directory")
		}
		n := int(in.concreteInt(a[1], "truncate size"))
		nd := append([]*sym.Term(nil), vf.data...)
		for len(nd) < n {
			nd = append(nd, sym.BV(0, 8))
		}
		vf.data = nd[:n:n]
		return Iface{}
	})
	reg("(*os.File).Seek", func(in *Interp, fn *ssa.Function, a []Value) Value {
		h := in.handle(a[0])
		off := int(in.concreteInt(a[1], "seek offset"))
		switch in.concreteInt(a[2], "seek whence") {
		case 0:
			h.pos = off
		case 1:
			h.pos += off
		case 2:
			if vf := in.fs().files[h.name]; vf != nil {
				h.pos = len(vf.data) + off
			}
		}
		return Tuple{sym.BV(uint64(h.pos), 64), Iface{}}
	})
	reg("(*os.File).Close", func(in *Interp, fn *ssa.Function, a []Value) Value {
		h := in.handle(a[0])
		if h.closed {
			return in.newError("close " + h.name + ": file already closed")
		}
		h.closed = true
		return Iface{}
	})
	reg("(*os.File).Sync", func(in *Interp, fn *ssa.Function, a []Value) Value { return Iface{} })
	reg("(*os.File).WriteTo", func(in *Interp, fn *ssa.Function, a []Value) Value {
		// not an io.WriterTo fast path: report "not implemented" the way os does so that io.Copy falls back
		h := in.handle(a[0])
		vf := in.fs().files[h.name]
		var rest []*sym.Term
		if vf != nil && h.pos < len(vf.data) {
			rest = vf.data[h.pos:]
		}
		w := a[1].(Iface)
		m := in.findMethod(w.T, "Write")
		bs := make([]Value, len(rest))
		for i := range rest {
			bs[i] = rest[i]
		}
		if len(bs) > 0 {
			in.callFn(m, []Value{w.V, bs}, nil, in.curFrame)
		}
		h.pos += len(rest)
		return Tuple{sym.BV(uint64(len(rest)), 64), Iface{}}
	})
	reg("(*os.File).ReadFrom", func(in *Interp, fn *ssa.Function, a []Value) Value {
		h := in.handle(a[0])
		r := a[1].(Iface)
		m := in.findMethod(r.T, "Read")
		total := 0
		for {
			buf := make([]Value, 64)
			for i := range buf {
				buf[i] = sym.BV(0, 8)
			}
			res := in.callFn(m, []Value{r.V, buf}, nil, in.curFrame).(Tuple)
			n := int(in.concreteInt(res[0], "Read count"))
			if n > 0 {
				write(in, h, bytesOf(buf[:n]))
				total += n
			}
			if e := res[1].(Iface); e.T != nil || n == 0 {
				break
			}
		}
		return Tuple{sym.BV(uint64(total), 64), Iface{}}
	})
	reg("(*os.File).Readdirnames", func(in *Interp, fn *ssa.Function, a []Value) Value {
		h := in.handle(a[0])
		var names []string
		for k := range in.fs().files {
			if strings.HasPrefix(k, h.name+"/") && !strings.Contains(k[len(h.name)+1:], "/") {
				names = append(names, k[len(h.name)+1:])
			}
		}
		sort.Strings(names)
		out := make([]Value, len(names))
		for i, n := range names {
			out[i] = n
		}
		return okErr(out)
	})

	// --- SHA-256 model ---
	digestT := func(in *Interp) types.Type {
		p := in.P.Pkgs["crypto/internal/fips140/sha256"]
		if p == nil || p.Type("Digest") == nil {
			in.unsupported("crypto/internal/fips140/sha256 not loaded")
		}
		return p.Type("Digest").Object().Type()
	}
	reg("crypto/sha256.New", func(in *Interp, fn *ssa.Function, a []Value) Value {
		t := digestT(in)
		p := new(Value)
		*p = Zero(t)
		in.fs().digests[p] = []*sym.Term{}
		return Iface{T: types.NewPointer(t), V: p}
	})
	reg("(*crypto/internal/fips140/sha256.Digest).Write", func(in *Interp, fn *ssa.Function, a []Value) Value {
		p := a[0].(*Value)
		in.fs().digests[p] = append(in.fs().digests[p], bytesOf(a[1])...)
		return Tuple{sym.BV(uint64(len(a[1].([]Value))), 64), Iface{}}
	})
	reg("(*crypto/internal/fips140/sha256.Digest).Sum", func(in *Interp, fn *ssa.Function, a []Value) Value {
		p := a[0].(*Value)
		sum := hashBytes(in, in.fs().digests[p])
		dst := a[1].([]Value)
		if cap(dst)-len(dst) >= len(sum) {
			// append in place, like the real Sum(b[:0]) idiom expects
			full := dst[:len(dst)+len(sum)]
			for i, b := range sum {
				in.setSlot(&full[len(dst)+i], b)
			}
			return full
		}
		out := append([]Value(nil), dst...)
		for _, b := range sum {
			out = append(out, b)
		}
		return out
	})
	reg("(*crypto/internal/fips140/sha256.Digest).Reset", func(in *Interp, fn *ssa.Function, a []Value) Value {
		in.fs().digests[a[0].(*Value)] = nil
		return nil
	})
	reg("(*crypto/internal/fips140/sha256.Digest).Size", func(in *Interp, fn *ssa.Function, a []Value) Value { return sym.BV(32, 64) })
	reg("(*crypto/internal/fips140/sha256.Digest).BlockSize", func(in *Interp, fn *ssa.Function, a []Value) Value { return sym.BV(64, 64) })
	reg("crypto/sha256.Sum256", func(in *Interp, fn *ssa.Function, a []Value) Value {
		sum := hashBytes(in, bytesOf(a[0]))
		out := make(Array, 32)
		for i := range sum {
			out[i] = sum[i]
		}
		return out
	})
}

func (in *Interp) eofError() Value {
	// io.EOF is a package-level error value: read it from the io package so that == io.EOF holds
	iop := in.P.Pkgs["io"]
	if iop == nil {
		in.unsupported("package io not loaded")
	}
	g, ok := iop.Members["EOF"].(*ssa.Global)
	if !ok {
		in.unsupported("io.EOF not found")
	}
	return in.load(in.global(g))
}

var _ = fmt.Sprint
