package exec

import (
	"fmt"
	"go/types"
	"strconv"
	"strings"

	"golang.org/x/tools/go/ssa"

	"verif/sym"
)

type mapEntry struct {
	k, v    Value
	deleted bool
}

// Map is an insertion-ordered map. Concrete keys are indexed by a
// canonical encoding; symbolic keys are resolved by solver-decided
// equality against every live entry (forking).
type Map struct {
	entries []*mapEntry
	idx     map[string]*mapEntry
	n       int
	symKeys int // number of live entries whose key is not encodable
}

func newMap() *Map { return &Map{idx: map[string]*mapEntry{}} }

// keyString returns a canonical encoding of a fully concrete key.
func keyString(v Value) (string, bool) {
	var sb strings.Builder
	ok := encodeKey(&sb, v)
	return sb.String(), ok
}

func encodeKey(sb *strings.Builder, v Value) bool {
	switch v := v.(type) {
	case *sym.Term:
		if !v.IsConst() {
			return false
		}
		sb.WriteString("i")
		sb.WriteString(strconv.FormatUint(v.C, 16))
		sb.WriteByte(';')
	case string:
		sb.WriteString("s")
		sb.WriteString(strconv.Itoa(len(v)))
		sb.WriteByte(':')
		sb.WriteString(v)
	case *SymStr:
		return false
	case float64:
		fmt.Fprintf(sb, "f%v;", v)
	case complex128:
		fmt.Fprintf(sb, "c%v;", v)
	case *Value:
		fmt.Fprintf(sb, "p%p;", v)
	case *Chan:
		fmt.Fprintf(sb, "h%p;", v)
	case *Map:
		fmt.Fprintf(sb, "m%p;", v)
	case Iface:
		if v.T == nil {
			sb.WriteString("N;")
			return true
		}
		sb.WriteString("I<")
		sb.WriteString(types.TypeString(v.T, nil))
		sb.WriteString(">")
		return encodeKey(sb, v.V)
	case Struct:
		sb.WriteString("S{")
		for _, f := range v {
			if !encodeKey(sb, f) {
				return false
			}
		}
		sb.WriteString("}")
	case Array:
		sb.WriteString("A{")
		for _, f := range v {
			if !encodeKey(sb, f) {
				return false
			}
		}
		sb.WriteString("}")
	case *ssa.Function:
		fmt.Fprintf(sb, "F%p;", v)
	case *Closure:
		fmt.Fprintf(sb, "C%p;", v)
	case Opaque:
		if tk, ok := v.X.(typeKey); ok {
			sb.WriteString("T<" + types.TypeString(tk.t, nil) + ">")
			break
		}
		fmt.Fprintf(sb, "O%p;", v.X)
	default:
		panic(fmt.Sprintf("unhashable map key %T", v))
	}
	return true
}

func (m *Map) Len() int { return m.n }

// find returns the live entry whose key equals k, forking on symbolic
// equalities.
func (in *Interp) mapFind(m *Map, k Value) *mapEntry {
	if m == nil {
		return nil
	}
	ks, concrete := keyString(k)
	if concrete {
		if e := m.idx[ks]; e != nil {
			return e
		}
		if m.symKeys == 0 {
			return nil
		}
	}
	for _, e := range m.entries {
		if e.deleted {
			continue
		}
		if concrete {
			if _, ec := keyString(e.k); ec {
				continue // concrete vs concrete: decided by the index
			}
		}
		c := in.valueEq(k, e.k)
		if in.truth(c) {
			return e
		}
	}
	return nil
}

func (in *Interp) mapInsert(m *Map, k, v Value) {
	if m == nil {
		in.targetPanicMsg("assignment to entry in nil map")
	}
	if e := in.mapFind(m, k); e != nil {
		old := e.v
		in.logUndo(func() { e.v = old })
		e.v = v
		return
	}
	e := &mapEntry{k: k, v: v}
	ks, concrete := keyString(k)
	m.entries = append(m.entries, e)
	m.n++
	if concrete {
		m.idx[ks] = e
	} else {
		m.symKeys++
	}
	in.logUndo(func() {
		m.entries = m.entries[:len(m.entries)-1]
		m.n--
		if concrete {
			delete(m.idx, ks)
		} else {
			m.symKeys--
		}
	})
}

func (in *Interp) mapDelete(m *Map, k Value) {
	e := in.mapFind(m, k)
	if e == nil {
		return
	}
	ks, concrete := keyString(e.k)
	e.deleted = true
	m.n--
	if concrete {
		delete(m.idx, ks)
	} else {
		m.symKeys--
	}
	in.logUndo(func() {
		e.deleted = false
		m.n++
		if concrete {
			m.idx[ks] = e
		} else {
			m.symKeys++
		}
	})
}

func (in *Interp) mapClear(m *Map) {
	if m == nil {
		return
	}
	for _, e := range m.entries {
		if !e.deleted {
			in.mapDelete(m, e.k)
		}
	}
}

// mapIter iterates over a snapshot of the live entries in insertion order.
type mapIter struct {
	m       *Map
	entries []*mapEntry
	i       int
}

func (it *mapIter) next() Value {
	for it.i < len(it.entries) {
		e := it.entries[it.i]
		it.i++
		if !e.deleted {
			return Tuple{sym.True, e.k, e.v}
		}
	}
	return Tuple{sym.False, nil, nil}
}

type strIter struct {
	in *Interp
	s  Value
	i  int
}

func (it *strIter) next() Value {
	n := strLen(it.s)
	if it.i >= n {
		return Tuple{sym.False, sym.BV(0, 64), sym.BV(0, 32)}
	}
	start := it.i
	r, size := it.in.decodeRune(it.s, it.i)
	it.i += size
	return Tuple{sym.True, sym.BV(uint64(start), 64), r}
}
