package exec

import (
	"fmt"
	"go/token"
	"go/types"
	"runtime/debug"
	"slices"
	"strings"

	"golang.org/x/tools/go/ssa"

	"verif/smt"
	"verif/sym"
)

// pathEnd aborts the current path (not a target-program panic).
type pathEnd struct {
	Status string // ok | assume_false | infeasible | bound_exceeded | unsupported | target_panic | engine_error
	Detail string
}

// targetPanic is a panic of the interpreted program.
type targetPanic struct{ v Value }

type deferred struct {
	fn   Value
	args []Value
	tail *deferred
}

type frame struct {
	in               *Interp
	caller           *frame
	fn               *ssa.Function
	block, prevBlock *ssa.BasicBlock
	env              []Value
	info             *fnInfo
	defers           *deferred
	result           Value
	panicking        bool
	panicv           any
	depth            int
}

type undoRec struct {
	p   *Value
	old Value
	f   func()
}

// Violation is a refuted assertion together with the solver's model.
type Violation struct {
	Harness string            `json:"harness"`
	Msg     string            `json:"msg"`
	Kind    string            `json:"kind"` // assert | panic
	Model   map[string]uint64 `json:"model"`
	Script  []ScriptVal       `json:"script"`
	Path    []int64           `json:"path"`
	Observe []string          `json:"observe,omitempty"`
}

// ScriptVal is one nondeterministic input in call order.
type ScriptVal struct {
	Kind string `json:"kind"`
	Name string `json:"name"`
	Val  uint64 `json:"val"`
}

type nondetRec struct {
	kind string
	t    *sym.Term
}

// Interp is the per-worker interpreter state.
type Interp struct {
	P       *Program
	fnInfos map[*ssa.Function]*fnInfo
	sol     *smt.Solver
	ss      *smt.Session

	prefix  []int64
	taken   []int64
	pending [][]int64

	nvars   int
	nondets []nondetRec
	pc      []*sym.Term

	globals   map[*ssa.Global]*Value
	inited    map[*ssa.Package]bool
	pools     map[*Value][]Value // sync.Pool contents (LIFO), keyed by the pool's address
	initDepth int
	undo      []undoRec

	steps     int64
	decisions int
	consts    map[*ssa.Const]Value
	intrCache map[*ssa.Function]intrinsic
	fnSteps   map[*ssa.Function]int64
	postdoms  map[*ssa.Function]*pdomInfo

	// per-path results
	reached      map[string]int
	observed     []string
	viols        []Violation
	asserts      int
	assertsUn    int // assertion queries that came back unknown
	unknowns     int
	inconclusive []string
	harness      string
	curFrame     *frame
	userState    map[string]any
	wantSample   bool
	sampleModel  map[string]uint64
	sampleScript []ScriptVal
}

func (in *Interp) unsupported(format string, args ...any) {
	panic(pathEnd{"unsupported", fmt.Sprintf(format, args...)})
}

func (in *Interp) targetPanicMsg(msg string) {
	if in.P.Cfg.TracePanics {
		msg += "\n" + in.stackTrace()
	}
	panic(targetPanic{Iface{T: in.P.runtimeErrorString, V: msg}})
}

// ---- store / load with undo logging ----

func (in *Interp) logUndo(f func()) {
	if in.initDepth == 0 {
		in.undo = append(in.undo, undoRec{f: f})
	}
}

func (in *Interp) setSlot(p *Value, v Value) {
	if in.initDepth == 0 {
		in.undo = append(in.undo, undoRec{p: p, old: *p})
	}
	*p = v
}

// store copies v into *addr, preserving the addresses of sub-elements.
func (in *Interp) store(addr *Value, v Value) {
	switch v := v.(type) {
	case Struct:
		if cur, ok := (*addr).(Struct); ok && len(cur) == len(v) {
			for i := range v {
				in.store(&cur[i], v[i])
			}
			return
		}
		in.setSlot(addr, copyVal(v))
	case Array:
		if cur, ok := (*addr).(Array); ok && len(cur) == len(v) {
			for i := range v {
				in.store(&cur[i], v[i])
			}
			return
		}
		in.setSlot(addr, copyVal(v))
	default:
		in.setSlot(addr, v)
	}
}

func (in *Interp) load(addr *Value) Value {
	if addr == nil {
		in.targetPanicMsg("invalid memory address or nil pointer dereference")
	}
	return copyVal(*addr)
}

func (in *Interp) rollback() {
	for i := len(in.undo) - 1; i >= 0; i-- {
		u := in.undo[i]
		if u.f != nil {
			u.f()
		} else {
			*u.p = u.old
		}
	}
	in.undo = in.undo[:0]
}

// ---- globals and package initialisation ----

var noInitPkgs = map[string]bool{
	"runtime": true, "syscall": true, "os": true, "reflect": true, "time": true,
	"sync/atomic": true, "unsafe": true, "os/signal": true, "os/exec": true, "net": true,
	"testing": true, "log": true, "flag": true, "go/build": true,
}

// packages whose init has effects outside the package (hooks installed in
// other packages) and must therefore run before their first function does,
// not only before their first global is read
var initOnCall = map[string]bool{"go/scanner": true}

func skipInit(path string) bool {
	if noInitPkgs[path] {
		return true
	}
	if strings.HasPrefix(path, "internal/") && path != "internal/godebugs" && path != "internal/goversion" &&
		path != "internal/types/errors" {
		return true
	}
	if strings.HasPrefix(path, "runtime/") || strings.HasPrefix(path, "vendor/") || strings.HasPrefix(path, "crypto/") {
		return true
	}
	return false
}

func (in *Interp) ensureInit(pkg *ssa.Package) {
	if pkg == nil || in.inited[pkg] {
		return
	}
	in.inited[pkg] = true
	if skipInit(pkg.Pkg.Path()) {
		return
	}
	initfn := pkg.Func("init")
	if initfn == nil || initfn.Blocks == nil {
		return
	}
	in.initDepth++
	defer func() { in.initDepth-- }()
	in.callFn(initfn, nil, nil, nil)
}

func (in *Interp) global(g *ssa.Global) *Value {
	if p, ok := in.globals[g]; ok {
		return p
	}
	p := new(Value)
	*p = Zero(g.Type().(*types.Pointer).Elem())
	in.globals[g] = p
	if g.Pkg != nil && !in.inited[g.Pkg] {
		in.ensureInit(g.Pkg)
	}
	return p
}

// ---- operand fetch ----

func (in *Interp) get(fr *frame, key ssa.Value) Value {
	switch key := key.(type) {
	case nil:
		return nil
	case *ssa.Function:
		return key
	case *ssa.Builtin:
		return key
	case *ssa.Const:
		if v, ok := in.consts[key]; ok {
			return v
		}
		v := in.constValue(key)
		in.consts[key] = v
		return v
	case *ssa.Global:
		return in.global(key)
	}
	if i, ok := fr.info.idx[key]; ok {
		return fr.env[i]
	}
	panic(fmt.Sprintf("get: no value for %T: %v in %s", key, key.Name(), fr.fn))
}

// fnInfo numbers the values of a function so that a frame's environment is
// a slice rather than a map.
type fnInfo struct {
	idx map[ssa.Value]int32
	n   int
}

func (in *Interp) fnInfoOf(fn *ssa.Function) *fnInfo {
	if fi := in.fnInfos[fn]; fi != nil {
		return fi
	}
	fi := &fnInfo{idx: map[ssa.Value]int32{}}
	add := func(v ssa.Value) {
		if _, ok := fi.idx[v]; !ok {
			fi.idx[v] = int32(fi.n)
			fi.n++
		}
	}
	for _, p := range fn.Params {
		add(p)
	}
	for _, fv := range fn.FreeVars {
		add(fv)
	}
	for _, l := range fn.Locals {
		add(l)
	}
	for _, b := range fn.Blocks {
		for _, ins := range b.Instrs {
			if v, ok := ins.(ssa.Value); ok {
				add(v)
			}
		}
	}
	if fn.Recover != nil {
		for _, ins := range fn.Recover.Instrs {
			if v, ok := ins.(ssa.Value); ok {
				add(v)
			}
		}
	}
	if in.fnInfos == nil {
		in.fnInfos = map[*ssa.Function]*fnInfo{}
	}
	in.fnInfos[fn] = fi
	return fi
}

func (fr *frame) set(k ssa.Value, v Value) {
	fr.env[fr.info.idx[k]] = v
}

// ---- calls ----

const maxCallDepth = 400

func (in *Interp) call(fn Value, args []Value, caller *frame) Value {
	switch fn := fn.(type) {
	case *ssa.Function:
		if fn == nil {
			in.targetPanicMsg("invalid memory address or nil pointer dereference (call of nil func)")
		}
		return in.callFn(fn, args, nil, caller)
	case *Closure:
		return in.callFn(fn.Fn, args, fn.Env, caller)
	case *ssa.Builtin:
		return in.callBuiltin(caller, fn, args, nil)
	case *NativeFn:
		return fn.F(in, args)
	}
	panic(fmt.Sprintf("cannot call %T", fn))
}

func (in *Interp) callFn(fn *ssa.Function, args []Value, env []Value, caller *frame) Value {
	if intr := in.lookupIntrinsic(fn); intr != nil {
		saved := in.curFrame
		in.curFrame = caller
		r := intr(in, fn, args)
		in.curFrame = saved
		return r
	}
	if fn.Blocks == nil {
		in.curFrame = caller
		in.unsupported("no code for function %s; called from:\n%s", fn, in.stackTrace())
	}
	if fn.TypeParams().Len() > 0 && len(fn.TypeArgs()) == 0 {
		in.unsupported("uninstantiated generic function %s", fn)
	}
	if pk := fn.Pkg; pk != nil && !in.inited[pk] && initOnCall[pk.Pkg.Path()] {
		in.ensureInit(pk)
	}
	fr := &frame{in: in, caller: caller, fn: fn}
	if caller != nil {
		fr.depth = caller.depth + 1
		if fr.depth > maxCallDepth {
			panic(pathEnd{"bound_exceeded", "call depth > " + fmt.Sprint(maxCallDepth) + " in " + fn.String()})
		}
	}
	fr.info = in.fnInfoOf(fn)
	fr.env = make([]Value, fr.info.n)
	fr.block = fn.Blocks[0]
	for _, l := range fn.Locals {
		p := new(Value)
		*p = Zero(l.Type().Underlying().(*types.Pointer).Elem())
		fr.set(l, p)
	}
	for i, p := range fn.Params {
		fr.set(p, args[i])
	}
	for i, fv := range fn.FreeVars {
		fr.set(fv, env[i])
	}
	saved := in.curFrame
	for fr.block != nil {
		in.runFrame(fr)
	}
	in.curFrame = saved
	return fr.result
}

func (in *Interp) runFrame(fr *frame) {
	defer func() {
		if fr.block == nil {
			return // normal return
		}
		r := recover()
		tp, ok := r.(targetPanic)
		if !ok {
			panic(r) // pathEnd or engine error: propagate untouched
		}
		fr.panicking = true
		fr.panicv = tp
		fr.runDefers()
		// recovered
		fr.block = fr.fn.Recover
		if fr.block == nil {
			fr.result = zeroResults(fr.fn)
		}
	}()
	for {
		in.curFrame = fr
		instrs := fr.block.Instrs
		// phis: parallel assignment
		nphi := 0
		for nphi < len(instrs) {
			if _, ok := instrs[nphi].(*ssa.Phi); !ok {
				break
			}
			nphi++
		}
		if nphi > 0 {
			pi := slices.Index(fr.block.Preds, fr.prevBlock)
			tmp := make([]Value, nphi)
			for i := 0; i < nphi; i++ {
				tmp[i] = in.get(fr, instrs[i].(*ssa.Phi).Edges[pi])
			}
			for i := 0; i < nphi; i++ {
				fr.set(instrs[i].(*ssa.Phi), tmp[i])
			}
		}
		n := int64(len(instrs) - nphi)
		in.steps += n
		if in.P.Cfg.ProfileFns {
			in.fnSteps[fr.fn] += n
		}
		if in.steps > in.P.Cfg.MaxSteps && in.initDepth == 0 {
			panic(pathEnd{"bound_exceeded", fmt.Sprintf("step budget %d exhausted in %s", in.P.Cfg.MaxSteps, fr.fn)})
		}
		jumped := false
		for _, instr := range instrs[nphi:] {
			switch in.visit(fr, instr) {
			case kReturn:
				return
			case kJump:
				jumped = true
			}
			if jumped {
				break
			}
		}
		if !jumped {
			panic("block fell through: " + fr.block.String() + " in " + fr.fn.String())
		}
	}
}

func zeroResults(fn *ssa.Function) Value {
	res := fn.Signature.Results()
	switch res.Len() {
	case 0:
		return nil
	case 1:
		return Zero(res.At(0).Type())
	}
	return Zero(res)
}

func (fr *frame) runDefer(d *deferred) {
	var ok bool
	defer func() {
		if !ok {
			r := recover()
			if tp, isT := r.(targetPanic); isT {
				fr.panicking = true
				fr.panicv = tp
				return
			}
			panic(r)
		}
	}()
	fr.in.call(d.fn, d.args, fr)
	ok = true
}

func (fr *frame) runDefers() {
	for d := fr.defers; d != nil; d = d.tail {
		fr.runDefer(d)
	}
	fr.defers = nil
	if fr.panicking {
		panic(fr.panicv)
	}
}

func (in *Interp) doRecover(caller *frame) Value {
	if caller != nil && !caller.panicking && caller.caller != nil && caller.caller.panicking {
		caller.caller.panicking = false
		p := caller.caller.panicv
		caller.caller.panicv = nil
		if tp, ok := p.(targetPanic); ok {
			return tp.v
		}
		panic(fmt.Sprintf("unexpected panic value %T in recover", p))
	}
	return Iface{}
}

type continuation int

const (
	kNext continuation = iota
	kReturn
	kJump
)

func (in *Interp) prepareCall(fr *frame, call *ssa.CallCommon) (fn Value, args []Value) {
	v := in.get(fr, call.Value)
	if call.Method == nil {
		fn = v
	} else {
		recv := v.(Iface)
		if recv.T == nil {
			in.targetPanicMsg("invalid memory address or nil pointer dereference (method call on nil interface)")
		}
		f := in.P.Prog.LookupMethod(recv.T, call.Method.Pkg(), call.Method.Name())
		if f == nil {
			panic(fmt.Sprintf("method set of %v lacks %s", recv.T, call.Method))
		}
		fn = f
		args = append(args, recv.V)
	}
	for _, a := range call.Args {
		args = append(args, in.get(fr, a))
	}
	return
}

func (in *Interp) visit(fr *frame, instr ssa.Instruction) continuation {
	switch instr := instr.(type) {
	case *ssa.DebugRef:

	case *ssa.UnOp:
		fr.set(instr, in.unop(instr, in.get(fr, instr.X)))

	case *ssa.BinOp:
		fr.set(instr, in.binop(instr.Op, instr.X.Type(), in.get(fr, instr.X), in.get(fr, instr.Y)))

	case *ssa.Call:
		if b, ok := instr.Call.Value.(*ssa.Builtin); ok {
			var args []Value
			for _, a := range instr.Call.Args {
				args = append(args, in.get(fr, a))
			}
			fr.set(instr, in.callBuiltin(fr, b, args, &instr.Call))
			in.curFrame = fr
			break
		}
		{
			fn, args := in.prepareCall(fr, &instr.Call)
			fr.set(instr, in.call(fn, args, fr))
			in.curFrame = fr
		}

	case *ssa.ChangeInterface:
		fr.set(instr, in.get(fr, instr.X))

	case *ssa.ChangeType:
		fr.set(instr, in.get(fr, instr.X))

	case *ssa.Convert:
		fr.set(instr, in.conv(instr.Type(), instr.X.Type(), in.get(fr, instr.X)))

	case *ssa.MultiConvert:
		fr.set(instr, in.conv(instr.Type(), instr.X.Type(), in.get(fr, instr.X)))

	case *ssa.SliceToArrayPointer:
		x := in.get(fr, instr.X).([]Value)
		n := instr.Type().Underlying().(*types.Pointer).Elem().Underlying().(*types.Array).Len()
		if int64(len(x)) < n {
			in.targetPanicMsg("cannot convert slice to array pointer: length too small")
		}
		if x == nil {
			fr.set(instr, (*Value)(nil))
		} else {
			// Engine limitation: the result points at a copy of the first n
			// elements; aliasing with the slice's backing array is lost (exact
			// when the pointer is only loaded from or compared, as in the
			// lowering of [N]T(s)).
			arr := make(Array, n)
			for i := range arr {
				arr[i] = copyVal(x[i])
			}
			p := new(Value)
			*p = arr
			fr.set(instr, p)
		}

	case *ssa.MakeInterface:
		fr.set(instr, Iface{T: instr.X.Type(), V: in.get(fr, instr.X)})

	case *ssa.Extract:
		fr.set(instr, in.get(fr, instr.Tuple).(Tuple)[instr.Index])

	case *ssa.Slice:
		fr.set(instr, in.slice(instr, in.get(fr, instr.X), in.get(fr, instr.Low), in.get(fr, instr.High), in.get(fr, instr.Max)))

	case *ssa.Return:
		switch len(instr.Results) {
		case 0:
		case 1:
			fr.result = in.get(fr, instr.Results[0])
		default:
			res := make(Tuple, len(instr.Results))
			for i, r := range instr.Results {
				res[i] = in.get(fr, r)
			}
			fr.result = res
		}
		fr.block = nil
		return kReturn

	case *ssa.RunDefers:
		fr.runDefers()
		in.curFrame = fr

	case *ssa.Panic:
		panic(targetPanic{in.get(fr, instr.X)})

	case *ssa.Send:
		ch := in.get(fr, instr.Chan).(*Chan)
		in.chanSend(ch, in.get(fr, instr.X))

	case *ssa.Store:
		if sp, ok := in.get(fr, instr.Addr).(*SymPtr); ok {
			in.storeSym(sp, in.get(fr, instr.Val))
			break
		}
		addr := in.get(fr, instr.Addr).(*Value)
		if addr == nil {
			in.targetPanicMsg("invalid memory address or nil pointer dereference")
		}
		in.store(addr, in.get(fr, instr.Val))

	case *ssa.If:
		succ := 1
		if in.branch(fr, instr) {
			succ = 0
		}
		fr.prevBlock, fr.block = fr.block, fr.block.Succs[succ]
		return kJump

	case *ssa.Jump:
		fr.prevBlock, fr.block = fr.block, fr.block.Succs[0]
		return kJump

	case *ssa.Defer:
		fn, args := in.prepareCall(fr, &instr.Call)
		defers := &fr.defers
		if instr.DeferStack != nil {
			if into := in.get(fr, instr.DeferStack); into != nil {
				defers = into.(Opaque).X.(**deferred)
			}
		}
		*defers = &deferred{fn: fn, args: args, tail: *defers}

	case *ssa.Go:
		in.unsupported("go statement in %s", fr.fn)

	case *ssa.MakeChan:
		n, ok := AsInt(in.get(fr, instr.Size))
		if !ok {
			in.unsupported("symbolic channel size")
		}
		fr.set(instr, &Chan{cap: int(n)})

	case *ssa.Alloc:
		p := new(Value)
		*p = Zero(instr.Type().Underlying().(*types.Pointer).Elem())
		fr.set(instr, p)

	case *ssa.MakeSlice:
		ln := in.concreteInt(in.get(fr, instr.Len), "make len")
		cp := in.concreteInt(in.get(fr, instr.Cap), "make cap")
		if ln < 0 || cp < ln {
			in.targetPanicMsg("makeslice: len out of range")
		}
		if cp > 1<<24 {
			in.unsupported("make([]T, %d) too large", cp)
		}
		s := make([]Value, cp)
		et := instr.Type().Underlying().(*types.Slice).Elem()
		z := Zero(et)
		for i := range s {
			if i == 0 {
				s[i] = z
			} else {
				s[i] = copyVal(z)
			}
		}
		fr.set(instr, s[:ln])

	case *ssa.MakeMap:
		fr.set(instr, newMap())

	case *ssa.Range:
		fr.set(instr, in.rangeIter(in.get(fr, instr.X)))

	case *ssa.Next:
		switch it := in.get(fr, instr.Iter).(type) {
		case *mapIter:
			fr.set(instr, it.next())
		case *strIter:
			fr.set(instr, it.next())
		default:
			panic(fmt.Sprintf("Next on %T", it))
		}

	case *ssa.FieldAddr:
		if sp, ok := in.get(fr, instr.X).(*SymPtr); ok {
			np := &SymPtr{}
			for _, c := range sp.C {
				np.C = append(np.C, symCand{&(*c.p).(Struct)[instr.Field], c.g})
			}
			fr.set(instr, np)
			break
		}
		p := in.get(fr, instr.X).(*Value)
		if p == nil {
			in.targetPanicMsg("invalid memory address or nil pointer dereference")
		}
		fr.set(instr, &(*p).(Struct)[instr.Field])

	case *ssa.Field:
		fr.set(instr, copyVal(in.get(fr, instr.X).(Struct)[instr.Field]))

	case *ssa.IndexAddr:
		x := in.get(fr, instr.X)
		if sp, ok := x.(*SymPtr); ok {
			// pointer-to-array candidates
			idx := ext64(in.get(fr, instr.Index).(*sym.Term), Signed(instr.Index.Type()))
			n := len((*sp.C[0].p).(Array))
			if len(sp.C)*n <= maxSymPtr {
				if idx.IsConst() {
					if idx.Int() < 0 || idx.Int() >= int64(n) {
						in.targetPanicMsg("index out of range")
					}
				} else if !in.decide(sym.ULt(idx, sym.BV(uint64(n), 64))) {
					in.targetPanicMsg("index out of range [symbolic]")
				}
				np := &SymPtr{}
				for _, c := range sp.C {
					a := (*c.p).(Array)
					if idx.IsConst() {
						np.C = append(np.C, symCand{&a[idx.Int()], c.g})
					} else {
						np.C = append(np.C, symIndex(a, idx, c.g)...)
					}
				}
				fr.set(instr, np)
				break
			}
			x = in.ptr(sp)
		}
		symbolicIdx := func(base []Value) bool {
			idx := ext64(in.get(fr, instr.Index).(*sym.Term), Signed(instr.Index.Type()))
			if idx.IsConst() || len(base) == 0 || len(base) > maxSymPtr || in.P.Cfg.NoSymPtr {
				return false
			}
			if !in.decide(sym.ULt(idx, sym.BV(uint64(len(base)), 64))) {
				in.targetPanicMsg(fmt.Sprintf("index out of range [symbolic] with length %d", len(base)))
			}
			fr.set(instr, &SymPtr{C: symIndex(base, idx, nil)})
			return true
		}
		switch x := x.(type) {
		case []Value:
			if symbolicIdx(x) {
				break
			}
			i := in.indexValue(in.get(fr, instr.Index), instr.Index.Type(), len(x))
			fr.set(instr, &x[i])
		case *Value:
			if x == nil {
				in.targetPanicMsg("invalid memory address or nil pointer dereference")
			}
			a := (*x).(Array)
			if symbolicIdx(a) {
				break
			}
			i := in.indexValue(in.get(fr, instr.Index), instr.Index.Type(), len(a))
			fr.set(instr, &a[i])
		default:
			panic(fmt.Sprintf("IndexAddr on %T", x))
		}

	case *ssa.Index:
		x := in.get(fr, instr.X)
		switch x := x.(type) {
		case Array:
			fr.set(instr, in.indexRead(x, in.get(fr, instr.Index), instr.Index.Type()))
		case string, *SymStr:
			fr.set(instr, in.strIndex(x, in.get(fr, instr.Index), instr.Index.Type()))
		default:
			panic(fmt.Sprintf("Index on %T", x))
		}

	case *ssa.Lookup:
		x := in.get(fr, instr.X)
		switch x := x.(type) {
		case string, *SymStr:
			fr.set(instr, in.strIndex(x, in.get(fr, instr.Index), instr.Index.Type()))
		case *Map:
			e := in.mapFind(x, in.get(fr, instr.Index))
			var v Value
			if e != nil {
				v = copyVal(e.v)
			} else {
				v = Zero(instr.X.Type().Underlying().(*types.Map).Elem())
			}
			if instr.CommaOk {
				fr.set(instr, Tuple{v, sym.Bool(e != nil)})
			} else {
				fr.set(instr, v)
			}
		default:
			panic(fmt.Sprintf("Lookup on %T", x))
		}

	case *ssa.MapUpdate:
		m := in.get(fr, instr.Map).(*Map)
		in.mapInsert(m, in.get(fr, instr.Key), copyVal(in.get(fr, instr.Value)))

	case *ssa.TypeAssert:
		fr.set(instr, in.typeAssert(instr, in.get(fr, instr.X).(Iface)))

	case *ssa.MakeClosure:
		var bindings []Value
		for _, b := range instr.Bindings {
			bindings = append(bindings, in.get(fr, b))
		}
		fr.set(instr, &Closure{instr.Fn.(*ssa.Function), bindings})

	case *ssa.Select:
		// sequential semantics: the first ready case, else default, else blocked
		chosen := -1
		var recvVal Value
		recvOk := false
		for i, st := range instr.States {
			ch, _ := in.get(fr, st.Chan).(*Chan)
			if ch == nil {
				continue
			}
			if st.Dir == types.RecvOnly {
				if len(ch.buf) > 0 || ch.closed {
					chosen = i
					recvVal, recvOk = in.chanRecv(ch, st.Chan.Type().Underlying().(*types.Chan).Elem())
					break
				}
			} else if !ch.closed && len(ch.buf) < ch.cap {
				chosen = i
				in.chanSend(ch, in.get(fr, st.Send))
				break
			}
		}
		if chosen < 0 && instr.Blocking {
			panic(pathEnd{"blocked", "select would block (sequential execution: no other goroutine can make a case ready)"})
		}
		r := Tuple{sym.BV(uint64(int64(chosen)), 64), sym.Bool(recvOk)}
		for i, st := range instr.States {
			if st.Dir == types.RecvOnly {
				if i == chosen && recvOk {
					r = append(r, recvVal)
				} else {
					r = append(r, Zero(st.Chan.Type().Underlying().(*types.Chan).Elem()))
				}
			}
		}
		fr.set(instr, r)

	default:
		panic(fmt.Sprintf("unexpected instruction %T", instr))
	}
	return kNext
}

// branch evaluates the condition of an If; symbolic conditions fork (or
// are if-converted when the diamond is pure, see ifconv.go).
func (in *Interp) branch(fr *frame, instr *ssa.If) bool {
	c := in.get(fr, instr.Cond).(*sym.Term)
	if c.IsConst() {
		return c.C != 0
	}
	return in.decide(c)
}

func (in *Interp) chanSend(ch *Chan, v Value) {
	if ch == nil {
		panic(pathEnd{"blocked", "send on nil channel blocks forever"})
	}
	if ch.closed {
		in.targetPanicMsg("send on closed channel")
	}
	if len(ch.buf) >= ch.cap {
		panic(pathEnd{"blocked", "channel send would block (sequential execution)"})
	}
	old := ch.buf
	in.logUndo(func() { ch.buf = old })
	ch.buf = append(append([]Value(nil), ch.buf...), v)
}

func (in *Interp) chanRecv(ch *Chan, et types.Type) (Value, bool) {
	if ch == nil {
		panic(pathEnd{"blocked", "receive on nil channel blocks forever"})
	}
	if len(ch.buf) == 0 {
		if ch.closed {
			return Zero(et), false
		}
		panic(pathEnd{"blocked", "channel receive would block (sequential execution)"})
	}
	old := ch.buf
	in.logUndo(func() { ch.buf = old })
	v := ch.buf[0]
	ch.buf = append([]Value(nil), ch.buf[1:]...)
	return v, true
}

// pos renders a source position for diagnostics.
func (in *Interp) pos(p token.Pos) string {
	if !p.IsValid() {
		return "-"
	}
	return in.P.Prog.Fset.Position(p).String()
}

func (in *Interp) stackTrace() string {
	var sb strings.Builder
	for fr := in.curFrame; fr != nil; fr = fr.caller {
		fmt.Fprintf(&sb, "  %s\n", fr.fn)
	}
	return sb.String()
}

var _ = debug.Stack
