// Command gose runs the solver-based checks of /verif against /repo.
//
//	gose check <property-id> [quick|thorough]
//	gose list
package main

import (
	"fmt"
	"os"
	"runtime/pprof"
	"sort"
	"strconv"

	"verif/checks"
)

func main() {
	if len(os.Args) < 2 {
		fmt.Fprintln(os.Stderr, "usage: gose check <id> [quick|thorough] | gose list")
		os.Exit(2)
	}
	switch os.Args[1] {
	case "list":
		var ids []string
		for id := range checks.Registry {
			ids = append(ids, id)
		}
		sort.Strings(ids)
		for _, id := range ids {
			fmt.Println(id)
		}
	case "check":
		if len(os.Args) < 3 {
			fmt.Fprintln(os.Stderr, "usage: gose check <id> [quick|thorough]")
			os.Exit(2)
		}
		id := os.Args[2]
		tier := os.Getenv("VERIF_TIER")
		if len(os.Args) > 3 {
			tier = os.Args[3]
		}
		if tier == "" {
			tier = "quick"
		}
		seed, _ := strconv.ParseInt(os.Getenv("VERIF_SEED"), 10, 64)
		mk := checks.Registry[id]
		if mk == nil {
			fmt.Fprintf(os.Stderr, "unknown property %s\n", id)
			os.Exit(2)
		}
		if pf := os.Getenv("VERIF_PPROF"); pf != "" {
			f, err := os.Create(pf)
			if err == nil {
				pprof.StartCPUProfile(f)
			}
			rc := checks.Run(mk(), tier, seed)
			pprof.StopCPUProfile()
			f.Close()
			os.Exit(rc)
		}
		os.Exit(checks.Run(mk(), tier, seed))
	default:
		fmt.Fprintln(os.Stderr, "unknown command", os.Args[1])
		os.Exit(2)
	}
}
