// Package smt drives SMT solvers over stdin/stdout: one long-lived
// incremental process per worker for the branch-feasibility and assertion
// stream, and one-shot processes for cross-checking self-contained scripts.
package smt

import (
	"bufio"
	"bytes"
	"context"
	"fmt"
	"io"
	"os/exec"
	"strconv"
	"strings"
	"sync/atomic"
	"time"

	"verif/sym"
)

type Result int

const (
	Unknown Result = iota
	Sat
	Unsat
)

func (r Result) String() string { return [...]string{"unknown", "sat", "unsat"}[r] }

// Stats are aggregated over all solver instances (atomics).
type Stats struct {
	Queries, SatN, UnsatN, UnknownN, Errors int64
	Nanos                                  int64
	CrossChecked, CrossDisagree            int64
}

var Global Stats

func cmdline(kind string, timeoutMs int) []string {
	switch kind {
	case "z3":
		return []string{"z3", "-in", fmt.Sprintf("-t:%d", timeoutMs)}
	case "z3-new":
		return []string{"z3-new", "-in", fmt.Sprintf("-t:%d", timeoutMs)}
	case "cvc5":
		return []string{"cvc5", "--incremental", "--lang=smt2", "--produce-models", fmt.Sprintf("--tlimit-per=%d", timeoutMs)}
	}
	panic("unknown solver " + kind)
}

// Solver is a live incremental solver process.
type Solver struct {
	Kind      string
	TimeoutMs int
	cmd       *exec.Cmd
	in        io.WriteCloser
	w         *bufio.Writer
	out       *bufio.Reader
	Log       io.Writer
	dead      bool
}

func Start(kind string, timeoutMs int) (*Solver, error) {
	args := cmdline(kind, timeoutMs)
	cmd := exec.Command(args[0], args[1:]...)
	in, err := cmd.StdinPipe()
	if err != nil {
		return nil, err
	}
	out, err := cmd.StdoutPipe()
	if err != nil {
		return nil, err
	}
	cmd.Stderr = nil
	if err := cmd.Start(); err != nil {
		return nil, err
	}
	s := &Solver{Kind: kind, TimeoutMs: timeoutMs, cmd: cmd, in: in, w: bufio.NewWriterSize(in, 1<<16), out: bufio.NewReaderSize(out, 1<<16)}
	s.send("(set-option :produce-models true)\n(set-logic ALL)\n")
	return s, nil
}

func (s *Solver) Close() {
	if s.dead {
		return
	}
	s.dead = true
	s.w.Flush()
	s.in.Close()
	done := make(chan struct{})
	go func() { s.cmd.Wait(); close(done) }()
	select {
	case <-done:
	case <-time.After(2 * time.Second):
		s.cmd.Process.Kill()
	}
}

func (s *Solver) send(x string) {
	if s.Log != nil {
		io.WriteString(s.Log, x)
	}
	if _, err := s.w.WriteString(x); err != nil {
		panic(fmt.Sprintf("solver %s: write: %v", s.Kind, err))
	}
}

// readSexp reads one complete s-expression or atom line from the solver.
func (s *Solver) readSexp() string {
	if err := s.w.Flush(); err != nil {
		panic(fmt.Sprintf("solver %s: flush: %v", s.Kind, err))
	}
	var sb strings.Builder
	depth := 0
	for {
		line, err := s.out.ReadString('\n')
		sb.WriteString(line)
		if err != nil {
			panic(fmt.Sprintf("solver %s: read: %v (got %q)", s.Kind, err, sb.String()))
		}
		inStr := false
		for _, c := range line {
			switch {
			case c == '"':
				inStr = !inStr
			case inStr:
			case c == '(':
				depth++
			case c == ')':
				depth--
			}
		}
		if depth <= 0 && strings.TrimSpace(sb.String()) != "" {
			return strings.TrimSpace(sb.String())
		}
	}
}

func (s *Solver) checkSat() Result {
	t0 := time.Now()
	s.send("(check-sat)\n")
	line := s.readSexp()
	atomic.AddInt64(&Global.Queries, 1)
	atomic.AddInt64(&Global.Nanos, int64(time.Since(t0)))
	switch line {
	case "sat":
		atomic.AddInt64(&Global.SatN, 1)
		return Sat
	case "unsat":
		atomic.AddInt64(&Global.UnsatN, 1)
		return Unsat
	}
	if strings.HasPrefix(line, "(error") {
		atomic.AddInt64(&Global.Errors, 1)
	}
	atomic.AddInt64(&Global.UnknownN, 1)
	return Unknown
}

// Session is the solver-side image of one execution path: declarations,
// definitions and path-condition conjuncts asserted so far, inside one
// push scope.
type Session struct {
	S          *Solver
	pr         *sym.Printer
	Transcript []string
	declared   map[string]bool
}

func (s *Solver) Begin() *Session {
	ss := &Session{S: s, declared: map[string]bool{}}
	ss.pr = sym.NewPrinter(func(def string) { ss.emit(def) })
	s.send("(push 1)\n")
	return ss
}

func (ss *Session) End() { ss.S.send("(pop 1)\n") }

func (ss *Session) emit(line string) {
	ss.Transcript = append(ss.Transcript, line)
	ss.S.send(line)
}

func (ss *Session) Declare(v *sym.Term) {
	if ss.declared[v.Name] {
		return
	}
	ss.declared[v.Name] = true
	ss.emit(fmt.Sprintf("(declare-const %s %s)\n", v.Name, sym.SortOf(int(v.W))))
}

func (ss *Session) Assert(t *sym.Term) {
	if t.IsTrue() {
		return
	}
	ss.emit(fmt.Sprintf("(assert %s)\n", ss.pr.Ref(t)))
}

// Check decides satisfiability of (path condition ∧ extra).
func (ss *Session) Check(extra *sym.Term) Result {
	if extra.IsFalse() {
		return Unsat
	}
	ref := ss.pr.Ref(extra)
	ss.S.send(fmt.Sprintf("(push 1)\n(assert %s)\n", ref))
	r := ss.S.checkSat()
	ss.S.send("(pop 1)\n")
	return r
}

// Model decides (path condition ∧ extra) and, when satisfiable, returns the
// values of vars.
func (ss *Session) Model(extra *sym.Term, vars []*sym.Term) (Result, map[string]uint64) {
	ref := ss.pr.Ref(extra)
	ss.S.send(fmt.Sprintf("(push 1)\n(assert %s)\n", ref))
	r := ss.S.checkSat()
	var m map[string]uint64
	if r == Sat && len(vars) > 0 {
		var names []string
		for _, v := range vars {
			names = append(names, v.Name)
		}
		ss.S.send("(get-value (" + strings.Join(names, " ") + "))\n")
		m = ParseModel(ss.S.readSexp())
	}
	ss.S.send("(pop 1)\n")
	return r, m
}

// Values evaluates arbitrary terms in a model of (path condition ∧ extra).
func (ss *Session) Values(extra *sym.Term, ts []*sym.Term) (Result, []uint64) {
	ref := ss.pr.Ref(extra)
	var refs []string
	for _, t := range ts {
		refs = append(refs, ss.pr.Ref(t))
	}
	ss.S.send(fmt.Sprintf("(push 1)\n(assert %s)\n", ref))
	r := ss.S.checkSat()
	var out []uint64
	if r == Sat {
		for _, rf := range refs {
			ss.S.send("(get-value (" + rf + "))\n")
			resp := ss.S.readSexp()
			v, ok := parseValueIn(resp)
			if !ok {
				panic("smt: cannot parse get-value response " + resp)
			}
			out = append(out, v)
		}
	}
	ss.S.send("(pop 1)\n")
	return r, out
}

// Script returns a self-contained SMT-LIB script equivalent to
// Check(extra), for one-shot cross-checking by another solver.
func (ss *Session) Script(extra *sym.Term) string {
	ref := ss.pr.Ref(extra)
	var sb strings.Builder
	sb.WriteString("(set-logic ALL)\n")
	for _, l := range ss.Transcript {
		sb.WriteString(l)
	}
	fmt.Fprintf(&sb, "(assert %s)\n(check-sat)\n", ref)
	return sb.String()
}

// ScriptNoCheck is Script without the trailing (check-sat).
func (ss *Session) ScriptNoCheck(extra *sym.Term) string {
	ref := ss.pr.Ref(extra)
	var sb strings.Builder
	sb.WriteString("(set-option :produce-models true)\n(set-logic ALL)\n")
	for _, l := range ss.Transcript {
		sb.WriteString(l)
	}
	fmt.Fprintf(&sb, "(assert %s)\n", ref)
	return sb.String()
}

// OneShotModel runs script + (check-sat) + (get-value vars) in a fresh
// process and returns the model when the answer is sat.
func OneShotModel(kind, script string, vars []*sym.Term, timeout time.Duration) map[string]uint64 {
	ctx, cancel := context.WithTimeout(context.Background(), timeout+2*time.Second)
	defer cancel()
	args := cmdline(kind, int(timeout/time.Millisecond))
	cmd := exec.CommandContext(ctx, args[0], args[1:]...)
	var names []string
	for _, v := range vars {
		names = append(names, v.Name)
	}
	full := script + "(check-sat)\n"
	if len(names) > 0 {
		full += "(get-value (" + strings.Join(names, " ") + "))\n"
	}
	cmd.Stdin = strings.NewReader(full)
	var out bytes.Buffer
	cmd.Stdout = &out
	cmd.Run()
	text := out.String()
	if strings.Contains(text, "(error") || !strings.HasPrefix(strings.TrimSpace(text), "sat") {
		return nil
	}
	i := strings.Index(text, "(")
	if i < 0 {
		return map[string]uint64{}
	}
	return ParseModel(text[i:])
}

// OneShot runs a self-contained script in a fresh solver process.
func OneShot(kind, script string, timeout time.Duration) Result {
	ctx, cancel := context.WithTimeout(context.Background(), timeout+2*time.Second)
	defer cancel()
	args := cmdline(kind, int(timeout/time.Millisecond))
	cmd := exec.CommandContext(ctx, args[0], args[1:]...)
	cmd.Stdin = strings.NewReader(script)
	var out bytes.Buffer
	cmd.Stdout = &out
	t0 := time.Now()
	cmd.Run()
	atomic.AddInt64(&Global.Nanos, int64(time.Since(t0)))
	atomic.AddInt64(&Global.Queries, 1)
	text := out.String()
	if strings.Contains(text, "(error") {
		atomic.AddInt64(&Global.Errors, 1)
		return Unknown
	}
	for _, line := range strings.Split(text, "\n") {
		switch strings.TrimSpace(line) {
		case "sat":
			return Sat
		case "unsat":
			return Unsat
		}
	}
	return Unknown
}

// ParseModel parses a (get-value ...) response: ((name value) ...).
func ParseModel(s string) map[string]uint64 {
	m := map[string]uint64{}
	toks := tokenize(s)
	// expect ( ( name value ) ( name value ) ... )
	i := 0
	if i < len(toks) && toks[i] == "(" {
		i++
	}
	for i < len(toks) && toks[i] == "(" {
		i++
		if i >= len(toks) {
			break
		}
		name := toks[i]
		i++
		v, n := parseValueToks(toks[i:])
		i += n
		m[name] = v
		if i < len(toks) && toks[i] == ")" {
			i++
		}
	}
	return m
}

func parseValueIn(s string) (uint64, bool) {
	toks := tokenize(s)
	// ((expr value)) — value is the last value-like token group
	// find the last occurrence parse from the end
	for i := len(toks) - 1; i >= 0; i-- {
		t := toks[i]
		if strings.HasPrefix(t, "#x") || strings.HasPrefix(t, "#b") || t == "true" || t == "false" {
			v, _ := parseValueToks(toks[i:])
			return v, true
		}
		if t == "_" && i+2 < len(toks) && strings.HasPrefix(toks[i+1], "bv") {
			v, _ := parseValueToks(toks[i-1:])
			return v, true
		}
	}
	return 0, false
}

func parseValueToks(toks []string) (uint64, int) {
	if len(toks) == 0 {
		return 0, 0
	}
	t := toks[0]
	switch {
	case t == "true":
		return 1, 1
	case t == "false":
		return 0, 1
	case strings.HasPrefix(t, "#x"):
		v, _ := strconv.ParseUint(t[2:], 16, 64)
		return v, 1
	case strings.HasPrefix(t, "#b"):
		v, _ := strconv.ParseUint(t[2:], 2, 64)
		return v, 1
	case t == "(" && len(toks) >= 5 && toks[1] == "_" && strings.HasPrefix(toks[2], "bv"):
		v, _ := strconv.ParseUint(toks[2][2:], 10, 64)
		return v, 5
	}
	// unknown shape: skip a balanced group
	if t == "(" {
		d := 0
		for i, x := range toks {
			if x == "(" {
				d++
			} else if x == ")" {
				d--
				if d == 0 {
					return 0, i + 1
				}
			}
		}
	}
	return 0, 1
}

func tokenize(s string) []string {
	var toks []string
	cur := strings.Builder{}
	flush := func() {
		if cur.Len() > 0 {
			toks = append(toks, cur.String())
			cur.Reset()
		}
	}
	for _, c := range s {
		switch c {
		case '(', ')':
			flush()
			toks = append(toks, string(c))
		case ' ', '\n', '\t', '\r':
			flush()
		default:
			cur.WriteRune(c)
		}
	}
	flush()
	return toks
}

// RunRaw feeds a complete script to a fresh solver process and returns its
// raw output (used where the answer is the solver's sort checker's verdict).
func RunRaw(kind, script string, timeout time.Duration) string {
	ctx, cancel := context.WithTimeout(context.Background(), timeout+2*time.Second)
	defer cancel()
	args := cmdline(kind, int(timeout/time.Millisecond))
	cmd := exec.CommandContext(ctx, args[0], args[1:]...)
	cmd.Stdin = strings.NewReader(script)
	var out bytes.Buffer
	cmd.Stdout = &out
	cmd.Stderr = &out
	t0 := time.Now()
	cmd.Run()
	atomic.AddInt64(&Global.Nanos, int64(time.Since(t0)))
	atomic.AddInt64(&Global.Queries, 1)
	return out.String()
}
