// Package sym implements the term language of the symbolic executor:
// booleans and fixed-width bit-vectors with Go's wrap-around semantics,
// constant folding, SMT-LIB2 printing and concrete evaluation.
package sym

import (
	"fmt"
	"math/bits"
	"strings"
)

type Op uint8

const (
	OpConst Op = iota
	OpVar
	OpNot
	OpAnd
	OpOr
	OpEq
	OpIte
	OpAdd
	OpSub
	OpMul
	OpUDiv
	OpSDiv
	OpURem
	OpSRem
	OpBAnd
	OpBOr
	OpBXor
	OpBNot
	OpNeg
	OpShl
	OpLShr
	OpAShr
	OpULt
	OpULe
	OpSLt
	OpSLe
	OpConcat
	OpExtract // C = hi<<8 | lo
	OpZExt    // C = extra bits
	OpSExt
	OpUF // uninterpreted function application: Name(args)
)

var opNames = [...]string{
	OpNot: "not", OpAnd: "and", OpOr: "or", OpEq: "=", OpIte: "ite",
	OpAdd: "bvadd", OpSub: "bvsub", OpMul: "bvmul", OpUDiv: "bvudiv", OpSDiv: "bvsdiv",
	OpURem: "bvurem", OpSRem: "bvsrem", OpBAnd: "bvand", OpBOr: "bvor", OpBXor: "bvxor",
	OpBNot: "bvnot", OpNeg: "bvneg", OpShl: "bvshl", OpLShr: "bvlshr", OpAShr: "bvashr",
	OpULt: "bvult", OpULe: "bvule", OpSLt: "bvslt", OpSLe: "bvsle", OpConcat: "concat",
}

// Term is an immutable node of a term DAG. W==0 means sort Bool, otherwise
// (_ BitVec W).
type Term struct {
	Op   Op
	W    uint8
	C    uint64 // constant value; extract bounds; extension amount
	Name string // variables and uninterpreted functions
	Args []*Term
	ID   int // creation serial (unique per process), used for naming
}

var serial int

// Serial numbers are only used for naming defined sub-terms inside one
// solver session; each worker owns its terms, but the counter is shared.
// A data race on it would only produce duplicate IDs across workers, which
// never meet in one session; to be safe the counter is per-goroutine-free:
// callers that build terms concurrently use NewCtx.
type Ctx struct{ n int }

var defaultCtx = &Ctx{}

func mk(op Op, w int, c uint64, args ...*Term) *Term {
	return &Term{Op: op, W: uint8(w), C: c, Args: args}
}

func Mask(w int) uint64 {
	if w >= 64 {
		return ^uint64(0)
	}
	return (uint64(1) << uint(w)) - 1
}

func SignExt(c uint64, w int) int64 {
	if w >= 64 {
		return int64(c)
	}
	sh := uint(64 - w)
	return int64(c<<sh) >> sh
}

var (
	True  = &Term{Op: OpConst, W: 0, C: 1}
	False = &Term{Op: OpConst, W: 0, C: 0}
)

func Bool(b bool) *Term {
	if b {
		return True
	}
	return False
}

var smallConsts [65][17]*Term

func BV(v uint64, w int) *Term {
	v &= Mask(w)
	if v < 17 && w <= 64 {
		if t := smallConsts[w][v]; t != nil {
			return t
		}
	}
	return &Term{Op: OpConst, W: uint8(w), C: v}
}

func init() {
	for w := 1; w <= 64; w++ {
		for v := 0; v < 17; v++ {
			if uint64(v) <= Mask(w) {
				smallConsts[w][v] = &Term{Op: OpConst, W: uint8(w), C: uint64(v)}
			}
		}
	}
}

func Var(name string, w int) *Term { return &Term{Op: OpVar, W: uint8(w), Name: name} }

func (t *Term) IsConst() bool { return t.Op == OpConst }
func (t *Term) IsBool() bool  { return t.W == 0 }
func (t *Term) IsTrue() bool  { return t.Op == OpConst && t.W == 0 && t.C == 1 }
func (t *Term) IsFalse() bool { return t.Op == OpConst && t.W == 0 && t.C == 0 }

// Int returns the constant as a signed integer of its width.
func (t *Term) Int() int64 { return SignExt(t.C, int(t.W)) }

func same(a, b *Term) bool {
	if a == b {
		return true
	}
	if a.Op != b.Op || a.W != b.W || a.C != b.C || a.Name != b.Name || len(a.Args) != len(b.Args) {
		return false
	}
	if a.Op == OpConst || a.Op == OpVar {
		return true
	}
	// shallow structural comparison (depth 2) is enough for the local rules
	for i := range a.Args {
		x, y := a.Args[i], b.Args[i]
		if x == y {
			continue
		}
		if x.Op != y.Op || x.W != y.W || x.C != y.C || x.Name != y.Name || len(x.Args) != 0 || len(y.Args) != 0 {
			return false
		}
	}
	return true
}

// ---- boolean constructors ----

func Not(a *Term) *Term {
	switch {
	case a.IsConst():
		return Bool(a.C == 0)
	case a.Op == OpNot:
		return a.Args[0]
	}
	return mk(OpNot, 0, 0, a)
}

func And(a, b *Term) *Term {
	switch {
	case a.IsFalse() || b.IsFalse():
		return False
	case a.IsTrue():
		return b
	case b.IsTrue():
		return a
	case same(a, b):
		return a
	}
	return mk(OpAnd, 0, 0, a, b)
}

func Or(a, b *Term) *Term {
	switch {
	case a.IsTrue() || b.IsTrue():
		return True
	case a.IsFalse():
		return b
	case b.IsFalse():
		return a
	case same(a, b):
		return a
	}
	return mk(OpOr, 0, 0, a, b)
}

func Implies(a, b *Term) *Term { return Or(Not(a), b) }

func AndN(ts ...*Term) *Term {
	r := True
	for _, t := range ts {
		r = And(r, t)
	}
	return r
}

func OrN(ts ...*Term) *Term {
	r := False
	for _, t := range ts {
		r = Or(r, t)
	}
	return r
}

func Eq(a, b *Term) *Term {
	if a.W != b.W {
		panic(fmt.Sprintf("sym.Eq: width mismatch %d vs %d", a.W, b.W))
	}
	if a.IsConst() && b.IsConst() {
		return Bool(a.C == b.C)
	}
	if same(a, b) {
		return True
	}
	if a.W == 0 {
		switch {
		case a.IsTrue():
			return b
		case b.IsTrue():
			return a
		case a.IsFalse():
			return Not(b)
		case b.IsFalse():
			return Not(a)
		}
	}
	// ite(c, k1, k2) == k  with constants
	if b.IsConst() && a.Op == OpIte && a.Args[1].IsConst() && a.Args[2].IsConst() {
		t, e := a.Args[1].C == b.C, a.Args[2].C == b.C
		switch {
		case t && e:
			return True
		case t:
			return a.Args[0]
		case e:
			return Not(a.Args[0])
		default:
			return False
		}
	}
	if a.IsConst() && b.Op == OpIte {
		return Eq(b, a)
	}
	return mk(OpEq, 0, 0, a, b)
}

func Ne(a, b *Term) *Term { return Not(Eq(a, b)) }

func Ite(c, a, b *Term) *Term {
	if a.W != b.W {
		panic(fmt.Sprintf("sym.Ite: width mismatch %d vs %d", a.W, b.W))
	}
	switch {
	case c.IsTrue():
		return a
	case c.IsFalse():
		return b
	case same(a, b):
		return a
	}
	if a.W == 0 {
		switch {
		case a.IsTrue() && b.IsFalse():
			return c
		case a.IsFalse() && b.IsTrue():
			return Not(c)
		case a.IsTrue():
			return Or(c, b)
		case a.IsFalse():
			return And(Not(c), b)
		case b.IsTrue():
			return Or(Not(c), a)
		case b.IsFalse():
			return And(c, a)
		}
	}
	return mk(OpIte, int(a.W), 0, c, a, b)
}

// ---- bit-vector constructors ----

func chk(a, b *Term, op string) {
	if a.W != b.W || a.W == 0 {
		panic(fmt.Sprintf("sym.%s: bad widths %d, %d", op, a.W, b.W))
	}
}

func Add(a, b *Term) *Term {
	chk(a, b, "Add")
	w := int(a.W)
	switch {
	case a.IsConst() && b.IsConst():
		return BV(a.C+b.C, w)
	case a.IsConst() && a.C == 0:
		return b
	case b.IsConst() && b.C == 0:
		return a
	}
	// (x + k1) + k2
	if b.IsConst() && a.Op == OpAdd && a.Args[1].IsConst() {
		return Add(a.Args[0], BV(a.Args[1].C+b.C, w))
	}
	if a.IsConst() {
		a, b = b, a
	}
	return mk(OpAdd, w, 0, a, b)
}

func Sub(a, b *Term) *Term {
	chk(a, b, "Sub")
	w := int(a.W)
	switch {
	case a.IsConst() && b.IsConst():
		return BV(a.C-b.C, w)
	case b.IsConst() && b.C == 0:
		return a
	case same(a, b):
		return BV(0, w)
	case b.IsConst():
		return Add(a, BV(-b.C, w))
	}
	return mk(OpSub, w, 0, a, b)
}

func Mul(a, b *Term) *Term {
	chk(a, b, "Mul")
	w := int(a.W)
	switch {
	case a.IsConst() && b.IsConst():
		return BV(a.C*b.C, w)
	case a.IsConst() && a.C == 0, b.IsConst() && b.C == 0:
		return BV(0, w)
	case a.IsConst() && a.C == 1:
		return b
	case b.IsConst() && b.C == 1:
		return a
	}
	if a.IsConst() {
		a, b = b, a
	}
	return mk(OpMul, w, 0, a, b)
}

// Division helpers follow SMT-LIB for division by zero; the interpreter
// never builds them with a possibly-zero divisor (it forks on the panic).
func UDiv(a, b *Term) *Term {
	chk(a, b, "UDiv")
	w := int(a.W)
	if a.IsConst() && b.IsConst() && b.C != 0 {
		return BV(a.C/b.C, w)
	}
	if b.IsConst() && b.C == 1 {
		return a
	}
	return mk(OpUDiv, w, 0, a, b)
}

func URem(a, b *Term) *Term {
	chk(a, b, "URem")
	w := int(a.W)
	if a.IsConst() && b.IsConst() && b.C != 0 {
		return BV(a.C%b.C, w)
	}
	if b.IsConst() && b.C == 1 {
		return BV(0, w)
	}
	if b.IsConst() && b.C&(b.C-1) == 0 && b.C != 0 {
		return BAnd(a, BV(b.C-1, w))
	}
	return mk(OpURem, w, 0, a, b)
}

func SDiv(a, b *Term) *Term {
	chk(a, b, "SDiv")
	w := int(a.W)
	if a.IsConst() && b.IsConst() && b.C != 0 {
		x, y := a.Int(), b.Int()
		if y == -1 {
			return BV(uint64(-x), w)
		}
		return BV(uint64(x/y), w)
	}
	if b.IsConst() && b.C == 1 {
		return a
	}
	return mk(OpSDiv, w, 0, a, b)
}

func SRem(a, b *Term) *Term {
	chk(a, b, "SRem")
	w := int(a.W)
	if a.IsConst() && b.IsConst() && b.C != 0 {
		x, y := a.Int(), b.Int()
		if y == -1 {
			return BV(0, w)
		}
		return BV(uint64(x%y), w)
	}
	if b.IsConst() && b.C == 1 {
		return BV(0, w)
	}
	return mk(OpSRem, w, 0, a, b)
}

func BAnd(a, b *Term) *Term {
	chk(a, b, "BAnd")
	w := int(a.W)
	switch {
	case a.IsConst() && b.IsConst():
		return BV(a.C&b.C, w)
	case a.IsConst() && a.C == 0, b.IsConst() && b.C == 0:
		return BV(0, w)
	case a.IsConst() && a.C == Mask(w):
		return b
	case b.IsConst() && b.C == Mask(w):
		return a
	case same(a, b):
		return a
	}
	return mk(OpBAnd, w, 0, a, b)
}

func BOr(a, b *Term) *Term {
	chk(a, b, "BOr")
	w := int(a.W)
	switch {
	case a.IsConst() && b.IsConst():
		return BV(a.C|b.C, w)
	case a.IsConst() && a.C == 0:
		return b
	case b.IsConst() && b.C == 0:
		return a
	case same(a, b):
		return a
	}
	return mk(OpBOr, w, 0, a, b)
}

func BXor(a, b *Term) *Term {
	chk(a, b, "BXor")
	w := int(a.W)
	switch {
	case a.IsConst() && b.IsConst():
		return BV(a.C^b.C, w)
	case a.IsConst() && a.C == 0:
		return b
	case b.IsConst() && b.C == 0:
		return a
	case same(a, b):
		return BV(0, w)
	}
	return mk(OpBXor, w, 0, a, b)
}

func BNot(a *Term) *Term {
	if a.IsConst() {
		return BV(^a.C, int(a.W))
	}
	if a.Op == OpBNot {
		return a.Args[0]
	}
	return mk(OpBNot, int(a.W), 0, a)
}

func Neg(a *Term) *Term {
	if a.IsConst() {
		return BV(-a.C, int(a.W))
	}
	return mk(OpNeg, int(a.W), 0, a)
}

// Shifts take a shift amount of the same width; amounts >= width yield the
// SMT-LIB result (0, or sign fill), which is also Go's.
func Shl(a, b *Term) *Term {
	chk(a, b, "Shl")
	w := int(a.W)
	if b.IsConst() {
		if b.C == 0 {
			return a
		}
		if b.C >= uint64(w) {
			return BV(0, w)
		}
		if a.IsConst() {
			return BV(a.C<<b.C, w)
		}
	}
	return mk(OpShl, w, 0, a, b)
}

func LShr(a, b *Term) *Term {
	chk(a, b, "LShr")
	w := int(a.W)
	if b.IsConst() {
		if b.C == 0 {
			return a
		}
		if b.C >= uint64(w) {
			return BV(0, w)
		}
		if a.IsConst() {
			return BV(a.C>>b.C, w)
		}
	}
	return mk(OpLShr, w, 0, a, b)
}

func AShr(a, b *Term) *Term {
	chk(a, b, "AShr")
	w := int(a.W)
	if b.IsConst() {
		if b.C == 0 {
			return a
		}
		if a.IsConst() {
			s := b.C
			if s >= uint64(w) {
				s = uint64(w - 1)
			}
			return BV(uint64(a.Int()>>s), w)
		}
	}
	return mk(OpAShr, w, 0, a, b)
}

func ULt(a, b *Term) *Term {
	chk(a, b, "ULt")
	if a.IsConst() && b.IsConst() {
		return Bool(a.C < b.C)
	}
	if same(a, b) || (b.IsConst() && b.C == 0) {
		return False
	}
	return mk(OpULt, 0, 0, a, b)
}

func ULe(a, b *Term) *Term {
	chk(a, b, "ULe")
	if a.IsConst() && b.IsConst() {
		return Bool(a.C <= b.C)
	}
	if same(a, b) || (a.IsConst() && a.C == 0) {
		return True
	}
	return mk(OpULe, 0, 0, a, b)
}

func SLt(a, b *Term) *Term {
	chk(a, b, "SLt")
	if a.IsConst() && b.IsConst() {
		return Bool(a.Int() < b.Int())
	}
	if same(a, b) {
		return False
	}
	return mk(OpSLt, 0, 0, a, b)
}

func SLe(a, b *Term) *Term {
	chk(a, b, "SLe")
	if a.IsConst() && b.IsConst() {
		return Bool(a.Int() <= b.Int())
	}
	if same(a, b) {
		return True
	}
	return mk(OpSLe, 0, 0, a, b)
}

func Extract(a *Term, hi, lo int) *Term {
	w := hi - lo + 1
	if w == int(a.W) {
		return a
	}
	if a.IsConst() {
		return BV(a.C>>uint(lo), w)
	}
	if lo == 0 && (a.Op == OpZExt || a.Op == OpSExt) {
		inner := a.Args[0]
		if w == int(inner.W) {
			return inner
		}
		if w < int(inner.W) {
			return Extract(inner, hi, 0)
		}
	}
	return mk(OpExtract, w, uint64(hi)<<8|uint64(lo), a)
}

func ZExt(a *Term, to int) *Term {
	if to == int(a.W) {
		return a
	}
	if a.IsConst() {
		return BV(a.C, to)
	}
	return mk(OpZExt, to, uint64(to-int(a.W)), a)
}

func SExt(a *Term, to int) *Term {
	if to == int(a.W) {
		return a
	}
	if a.IsConst() {
		return BV(uint64(a.Int()), to)
	}
	return mk(OpSExt, to, uint64(to-int(a.W)), a)
}

func Concat(hi, lo *Term) *Term {
	w := int(hi.W) + int(lo.W)
	if hi.IsConst() && lo.IsConst() && w <= 64 {
		return BV(hi.C<<lo.W|lo.C, w)
	}
	return mk(OpConcat, w, 0, hi, lo)
}

// UF applies an uninterpreted function (declared by the solver session on
// first use) with result width w (0 = Bool).
func UF(name string, w int, args ...*Term) *Term {
	return &Term{Op: OpUF, W: uint8(w), Name: name, Args: args}
}

// ---- printing ----

func SortOf(w int) string {
	if w == 0 {
		return "Bool"
	}
	return fmt.Sprintf("(_ BitVec %d)", w)
}

func (t *Term) leaf() string {
	switch t.Op {
	case OpVar:
		return t.Name
	case OpConst:
		if t.W == 0 {
			if t.C != 0 {
				return "true"
			}
			return "false"
		}
		return fmt.Sprintf("(_ bv%d %d)", t.C, t.W)
	}
	return ""
}

// Printer renders terms as SMT-LIB2, naming every shared interior node once
// through define-fun so that the text stays linear in the DAG size.
type Printer struct {
	names map[*Term]string
	n     int
	Out   func(string) // receives definitions (define-fun / declare-fun lines)
	ufs   map[string]bool
}

func NewPrinter(out func(string)) *Printer {
	return &Printer{names: map[*Term]string{}, Out: out, ufs: map[string]bool{}}
}

// Ref returns an SMT-LIB expression denoting t, emitting definitions for
// interior nodes that have not been defined in this printer yet.
func (p *Printer) Ref(t *Term) string {
	if s := t.leaf(); s != "" {
		return s
	}
	if s, ok := p.names[t]; ok {
		return s
	}
	var sb strings.Builder
	switch t.Op {
	case OpExtract:
		fmt.Fprintf(&sb, "((_ extract %d %d) %s)", t.C>>8, t.C&0xff, p.Ref(t.Args[0]))
	case OpZExt:
		fmt.Fprintf(&sb, "((_ zero_extend %d) %s)", t.C, p.Ref(t.Args[0]))
	case OpSExt:
		fmt.Fprintf(&sb, "((_ sign_extend %d) %s)", t.C, p.Ref(t.Args[0]))
	case OpUF:
		if !p.ufs[t.Name] {
			p.ufs[t.Name] = true
			var as []string
			for _, a := range t.Args {
				as = append(as, SortOf(int(a.W)))
			}
			p.Out(fmt.Sprintf("(declare-fun %s (%s) %s)\n", t.Name, strings.Join(as, " "), SortOf(int(t.W))))
		}
		if len(t.Args) == 0 {
			return t.Name
		}
		sb.WriteString("(" + t.Name)
		for _, a := range t.Args {
			sb.WriteString(" " + p.Ref(a))
		}
		sb.WriteString(")")
	default:
		sb.WriteString("(" + opNames[t.Op])
		for _, a := range t.Args {
			sb.WriteString(" " + p.Ref(a))
		}
		sb.WriteString(")")
	}
	p.n++
	name := fmt.Sprintf("t!%d", p.n)
	p.Out(fmt.Sprintf("(define-fun %s () %s %s)\n", name, SortOf(int(t.W)), sb.String()))
	p.names[t] = name
	return name
}

// String renders the term as a tree (debugging / evidence samples only).
func (t *Term) String() string {
	if s := t.leaf(); s != "" {
		return s
	}
	var sb strings.Builder
	t.str(&sb, 0)
	return sb.String()
}

func (t *Term) str(sb *strings.Builder, depth int) {
	if s := t.leaf(); s != "" {
		sb.WriteString(s)
		return
	}
	if depth > 12 || sb.Len() > 2000 {
		sb.WriteString("…")
		return
	}
	switch t.Op {
	case OpExtract:
		fmt.Fprintf(sb, "((_ extract %d %d) ", t.C>>8, t.C&0xff)
	case OpZExt:
		fmt.Fprintf(sb, "((_ zero_extend %d) ", t.C)
	case OpSExt:
		fmt.Fprintf(sb, "((_ sign_extend %d) ", t.C)
	case OpUF:
		sb.WriteString("(" + t.Name + " ")
	default:
		sb.WriteString("(" + opNames[t.Op] + " ")
	}
	for i, a := range t.Args {
		if i > 0 {
			sb.WriteString(" ")
		}
		a.str(sb, depth+1)
	}
	sb.WriteString(")")
}

// ---- evaluation ----

// Eval computes the value of t under env (variable name -> value). UFs are
// looked up in env under their printed application "name(args...)"; a
// missing entry panics.
func Eval(t *Term, env map[string]uint64) uint64 {
	memo := map[*Term]uint64{}
	return eval(t, env, memo)
}

func eval(t *Term, env map[string]uint64, memo map[*Term]uint64) uint64 {
	if t.Op == OpConst {
		return t.C
	}
	if v, ok := memo[t]; ok {
		return v
	}
	w := int(t.W)
	var a [3]uint64
	for i, x := range t.Args {
		if i < 3 {
			a[i] = eval(x, env, memo)
		}
	}
	aw := 0
	if len(t.Args) > 0 {
		aw = int(t.Args[0].W)
	}
	b2u := func(b bool) uint64 {
		if b {
			return 1
		}
		return 0
	}
	var r uint64
	switch t.Op {
	case OpVar:
		v, ok := env[t.Name]
		if !ok {
			v = 0 // unconstrained variables default to zero
		}
		r = v & Mask(max(w, 1))
	case OpNot:
		r = a[0] ^ 1
	case OpAnd:
		r = a[0] & a[1]
	case OpOr:
		r = a[0] | a[1]
	case OpEq:
		r = b2u(a[0] == a[1])
	case OpIte:
		if a[0] != 0 {
			r = a[1]
		} else {
			r = a[2]
		}
	case OpAdd:
		r = a[0] + a[1]
	case OpSub:
		r = a[0] - a[1]
	case OpMul:
		r = a[0] * a[1]
	case OpUDiv:
		if a[1] == 0 {
			r = Mask(w)
		} else {
			r = a[0] / a[1]
		}
	case OpURem:
		if a[1] == 0 {
			r = a[0]
		} else {
			r = a[0] % a[1]
		}
	case OpSDiv:
		x, y := SignExt(a[0], w), SignExt(a[1], w)
		switch {
		case y == 0:
			if x >= 0 {
				r = Mask(w)
			} else {
				r = 1
			}
		case y == -1:
			r = uint64(-x)
		default:
			r = uint64(x / y)
		}
	case OpSRem:
		x, y := SignExt(a[0], w), SignExt(a[1], w)
		switch {
		case y == 0:
			r = uint64(x)
		case y == -1:
			r = 0
		default:
			r = uint64(x % y)
		}
	case OpBAnd:
		r = a[0] & a[1]
	case OpBOr:
		r = a[0] | a[1]
	case OpBXor:
		r = a[0] ^ a[1]
	case OpBNot:
		r = ^a[0]
	case OpNeg:
		r = -a[0]
	case OpShl:
		if a[1] >= uint64(w) {
			r = 0
		} else {
			r = a[0] << a[1]
		}
	case OpLShr:
		if a[1] >= uint64(w) {
			r = 0
		} else {
			r = a[0] >> a[1]
		}
	case OpAShr:
		s := a[1]
		if s >= uint64(w) {
			s = uint64(w - 1)
		}
		r = uint64(SignExt(a[0], w) >> s)
	case OpULt:
		r = b2u(a[0] < a[1])
	case OpULe:
		r = b2u(a[0] <= a[1])
	case OpSLt:
		r = b2u(SignExt(a[0], aw) < SignExt(a[1], aw))
	case OpSLe:
		r = b2u(SignExt(a[0], aw) <= SignExt(a[1], aw))
	case OpConcat:
		r = a[0]<<t.Args[1].W | a[1]
	case OpExtract:
		r = a[0] >> (t.C & 0xff)
	case OpZExt:
		r = a[0]
	case OpSExt:
		r = uint64(SignExt(a[0], aw))
	case OpUF:
		key := t.Name + "("
		for i, x := range t.Args {
			if i > 0 {
				key += ","
			}
			key += fmt.Sprint(eval(x, env, memo))
		}
		key += ")"
		v, ok := env[key]
		if !ok {
			panic("sym.Eval: no interpretation for " + key)
		}
		r = v
	default:
		panic("sym.Eval: op")
	}
	if w > 0 {
		r &= Mask(w)
	} else {
		r &= 1
	}
	memo[t] = r
	return r
}

// Vars collects the variables occurring in t.
func Vars(t *Term, into map[string]*Term) {
	seen := map[*Term]bool{}
	var walk func(*Term)
	walk = func(x *Term) {
		if seen[x] {
			return
		}
		seen[x] = true
		if x.Op == OpVar {
			into[x.Name] = x
		}
		for _, a := range x.Args {
			walk(a)
		}
	}
	walk(t)
}

// Size returns the number of distinct nodes of the DAG.
func Size(t *Term) int {
	seen := map[*Term]bool{}
	var walk func(*Term)
	walk = func(x *Term) {
		if seen[x] {
			return
		}
		seen[x] = true
		for _, a := range x.Args {
			walk(a)
		}
	}
	walk(t)
	return len(seen)
}

var _ = bits.Len
