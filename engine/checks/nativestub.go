package checks

// Native counterpart of //verif:stub: for the natively compiled harness the
// source file that declares the stubbed function is replaced (go build
// -overlay, nothing is written into /repo) by a copy in which the function is
// renamed and a forwarding function with the original name calls a
// package-level hook when one is installed; the harness package installs its
// stub function as the hook from an init function.

import (
	"bytes"
	"fmt"
	"go/ast"
	"go/parser"
	"go/printer"
	"go/token"
	"os"
	"path/filepath"
	"regexp"
	"strings"
)

type stubDirective struct {
	Callee, Harness string
}

var stubRe = regexp.MustCompile(`(?m)^//verif:stub (\S+) (\S+)\s*$`)

func findStubs(files []string) []stubDirective {
	var out []stubDirective
	for _, f := range files {
		b, err := os.ReadFile(f)
		if err != nil {
			continue
		}
		for _, m := range stubRe.FindAllStringSubmatch(string(b), -1) {
			out = append(out, stubDirective{m[1], m[2]})
		}
	}
	return out
}

// parseCallee splits "(*pkg/path.Type).Method", "(pkg/path.Type).Method" or "pkg/path.Func".
func parseCallee(s string) (pkgPath, recv string, ptr bool, name string, ok bool) {
	if strings.HasPrefix(s, "(") {
		end := strings.Index(s, ")")
		if end < 0 || end+2 > len(s) {
			return
		}
		inner := s[1:end]
		if strings.HasPrefix(inner, "*") {
			ptr = true
			inner = inner[1:]
		}
		dot := strings.LastIndex(inner, ".")
		if dot < 0 {
			return
		}
		return inner[:dot], inner[dot+1:], ptr, s[end+2:], true
	}
	dot := strings.LastIndex(s, ".")
	if dot < 0 {
		return
	}
	return s[:dot], "", false, s[dot+1:], true
}

const repoModule = "honnef.co/go/tools"

// nativeStubOverlay returns overlay entries (real path -> replacement file)
// for the stubbed callees and the Go source of the init file to add to the
// harness package. Stubs of functions outside the repository module are
// skipped (the native run then executes the real function).
func nativeStubOverlay(g *Group, id string, stubs []stubDirective, wd string) (map[string]string, string, error) {
	repl := map[string]string{}
	var initBody strings.Builder
	imports := map[string]string{}
	edited := map[string][]byte{}
	for _, st := range stubs {
		pkgPath, recv, ptr, name, ok := parseCallee(st.Callee)
		if !ok || !strings.HasPrefix(pkgPath, repoModule) {
			continue
		}
		dir := filepath.Join(RepoDir, strings.TrimPrefix(strings.TrimPrefix(pkgPath, repoModule), "/"))
		ents, err := os.ReadDir(dir)
		if err != nil {
			return nil, "", err
		}
		found := false
		for _, e := range ents {
			if !strings.HasSuffix(e.Name(), ".go") || strings.HasSuffix(e.Name(), "_test.go") {
				continue
			}
			path := filepath.Join(dir, e.Name())
			src, ok := edited[path]
			if !ok {
				src, err = os.ReadFile(path)
				if err != nil {
					return nil, "", err
				}
			}
			fset := token.NewFileSet()
			f, err := parser.ParseFile(fset, path, src, parser.ParseComments)
			if err != nil {
				continue
			}
			for _, d := range f.Decls {
				fd, ok := d.(*ast.FuncDecl)
				if !ok || fd.Name.Name != name || fd.Body == nil {
					continue
				}
				if (recv == "") != (fd.Recv == nil) {
					continue
				}
				recvText := ""
				if fd.Recv != nil {
					t := fd.Recv.List[0].Type
					star, isPtr := t.(*ast.StarExpr)
					if isPtr {
						t = star.X
					}
					idn, isIdent := t.(*ast.Ident)
					if !isIdent || idn.Name != recv || isPtr != ptr {
						continue
					}
					var rb bytes.Buffer
					printer.Fprint(&rb, fset, fd.Recv.List[0].Type)
					recvText = rb.String()
				}
				// signature pieces
				var params, args, ptypes []string
				n := 0
				for _, fld := range fd.Type.Params.List {
					var tb bytes.Buffer
					printer.Fprint(&tb, fset, fld.Type)
					ts := tb.String()
					cnt := len(fld.Names)
					if cnt == 0 {
						cnt = 1
					}
					for k := 0; k < cnt; k++ {
						pn := fmt.Sprintf("vp%d", n)
						n++
						params = append(params, pn+" "+ts)
						if strings.HasPrefix(ts, "...") {
							args = append(args, pn+"...")
							ptypes = append(ptypes, "[]"+strings.TrimPrefix(ts, "..."))
						} else {
							args = append(args, pn)
							ptypes = append(ptypes, ts)
						}
					}
				}
				var results string
				if fd.Type.Results != nil {
					results = string(src[fset.Position(fd.Type.Results.Pos()).Offset:fset.Position(fd.Type.Results.End()).Offset])
					if !strings.HasPrefix(results, "(") {
						results = "(" + results + ")"
					}
				}
				hook := "VerifHook_" + recv + "_" + name
				hookTypes := ptypes
				fwdArgs := args
				recvDecl := ""
				if recvText != "" {
					hookTypes = append([]string{recvText}, ptypes...)
					fwdArgs = append([]string{"vrecv"}, args...)
					recvDecl = "(vrecv " + recvText + ") "
				}
				// hook arguments: variadic slices are passed as slices
				hookArgs := make([]string, len(fwdArgs))
				for i, a := range fwdArgs {
					hookArgs[i] = strings.TrimSuffix(a, "...")
				}
				ret := ""
				if results != "" {
					ret = "return "
				}
				origCall := name + "__verifOrig(" + strings.Join(args, ", ") + ")"
				if recvText != "" {
					origCall = "vrecv." + origCall
				}
				var add strings.Builder
				fmt.Fprintf(&add, "\n\nvar %s func(%s) %s\n\n", hook, strings.Join(hookTypes, ", "), results)
				fmt.Fprintf(&add, "func %s%s(%s) %s {\n\tif %s != nil {\n\t\t%s%s(%s)\n\t\treturn\n\t}\n\t%s%s\n}\n",
					recvDecl, name, strings.Join(params, ", "), results, hook, ret, hook, strings.Join(hookArgs, ", "), ret, origCall)
				text := add.String()
				if results != "" {
					// "return hook(...)\n return" is not valid: emit a plain return of the call
					text = strings.Replace(text, "\t\treturn\n\t}", "\t}", 1)
				}
				// rename the original: edit the identifier in the source text
				off := fset.Position(fd.Name.Pos()).Offset
				ns := append([]byte{}, src[:off]...)
				ns = append(ns, []byte(name+"__verifOrig")...)
				ns = append(ns, src[off+len(name):]...)
				ns = append(ns, []byte(text)...)
				edited[path] = ns
				found = true
				// hook installation in the harness package
				qual := ""
				if pkgPath != g.PkgPath {
					alias, ok := imports[pkgPath]
					if !ok {
						alias = fmt.Sprintf("vstub%d", len(imports))
						imports[pkgPath] = alias
					}
					qual = alias + "."
				}
				fmt.Fprintf(&initBody, "\t%s%s = %s\n", qual, hook, st.Harness)
				break
			}
			if found {
				break
			}
		}
		if !found {
			return nil, "", fmt.Errorf("native stub: declaration of %s not found", st.Callee)
		}
	}
	for path, src := range edited {
		out := filepath.Join(wd, "stub_"+strings.ReplaceAll(strings.TrimPrefix(path, RepoDir+"/"), "/", "_"))
		if err := os.WriteFile(out, src, 0o644); err != nil {
			return nil, "", err
		}
		repl[path] = out
	}
	if initBody.Len() == 0 {
		return repl, "", nil
	}
	var sb strings.Builder
	sb.WriteString("package " + g.PkgName + "\n\n")
	for p, a := range imports {
		fmt.Fprintf(&sb, "import %s %q\n", a, p)
	}
	sb.WriteString("\nfunc init() {\n" + initBody.String() + "}\n")
	return repl, sb.String(), nil
}
