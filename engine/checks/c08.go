package checks

import (
	gose "verif/exec"
	"fmt"
	"reflect"
	"sort"
	"strings"

	"honnef.co/go/tools/pattern"
)

// patterns whose roots exercise the entry-kind computation: Or of wrapped
// alternatives, Not, nested Or, bindings without a node, lists
var c08Patterns = []string{
	`(Or call@(CallExpr _ _) neg@(UnaryExpr "-" _))`,
	`(Or (Binding "a" (BinaryExpr _ _ _)) (Binding "b" (Ident _)))`,
	`(Or (Or (CallExpr _ _) (BasicLit _ _)) (Or (UnaryExpr _ _) (SliceExpr _ _ _ _)))`,
	`(Not (CallExpr _ _))`,
	`(Or (Not (BinaryExpr _ _ _)) (Ident _))`,
	`(Binding "x" (Or (BasicLit "INT" _) (Ident _)))`,
	`(Binding "anything" nil)`,
	`(Or (Ident "a") (Or lit@(BasicLit _ "1") un@(UnaryExpr _ (Or (BasicLit _ _) (Ident _)))))`,
}

// patterns with symbols, for the candidate enumeration of code.Matches
var c08SitePatterns = []string{
	`(CallExpr (Symbol "example.com/dep.F") _)`,
	`(CallExpr fun@(Symbol (Or "example.com/dep.F" "example.com/dep.G")) args)`,
	`(CallExpr (Symbol "(*example.com/dep.T).M") _)`,
	`(BinaryExpr (CallExpr (Symbol "example.com/dep.F") _) "==" _)`,
	`(Or (CallExpr (Symbol "example.com/dep.F") _) (UnaryExpr "!" _))`,
	`(CallExpr (Not (Symbol "example.com/dep.F")) [_])`,
	`(CallExpr (Symbol "(example.com/dep.I).M") _)`,
	`(CallExpr (Symbol "example.com/dep.V") _)`,
	`(CallExpr (Symbol "example.com/dep.D") _)`,
	`(CallExpr (Symbol "len") _)`,
	`(DeferStmt (CallExpr (Symbol "example.com/dep.F") _))`,
	`(AssignStmt _ ":=" (Symbol "example.com/dep.F"))`,
}

func c08SitesPrepare(c *Ctx) (map[string]string, []Entry, error) {
	var sb strings.Builder
	sb.WriteString("package code\n\nimport (\n\t\"go/ast\"\n\n\t\"honnef.co/go/tools/pattern\"\n)\n\nvar _ ast.Node\n\n")
	var entries []Entry
	for i, s := range c08SitePatterns {
		var parser pattern.Parser
		parser.AllowTypeInfo = true
		p, err := parser.Parse(s)
		if err != nil {
			return nil, nil, fmt.Errorf("site pattern %d does not parse: %v\n%s", i, err, s)
		}
		fmt.Fprintf(&sb, "// %s\nfunc c08SitePat%d() pattern.Pattern {\n\treturn %s\n}\n\n", s, i, renderFullPattern(p, "c08B"))
		for _, n := range []int{1, 2} {
			fn := fmt.Sprintf("Harness_C08_sites_p%d_n%d", i, n)
			fmt.Fprintf(&sb, "func %s() {\n\tc08Sites(%q, c08SitePat%d(), %d)\n\tvreach(\"end\")\n}\n\n", fn, fmt.Sprintf("site pattern %d", i), i, n)
			tier := "both"
			if n == 2 {
				tier = "thorough"
			}
			entries = append(entries, Entry{Fn: fn, Tiers: tier, Reach: []string{"end"},
				Bounds: fmt.Sprintf("pattern: %s ; package p with %d site(s) out of 21 call/reference forms x 4 import forms (plain, renamed, dot, none), two dependency packages; parsed and type-checked by the real go/parser and go/types inside the engine", s, n)})
		}
	}
	return map[string]string{"zz_c08_sites_gen.go": sb.String()}, entries, nil
}

func c08Prepare(c *Ctx) (map[string]string, []Entry, error) {
	pats := append([]string{}, c08Patterns...)
	pats = append(pats, c09Patterns...)
	var sb strings.Builder
	sb.WriteString("package pattern\n\n")
	var entries []Entry
	for i, s := range pats {
		var parser pattern.Parser
		p, err := parser.Parse(s)
		if err != nil {
			return nil, nil, fmt.Errorf("pattern %d does not parse: %v\n%s", i, err, s)
		}
		var kinds []string
		for _, n := range p.EntryNodes {
			kinds = append(kinds, fmt.Sprintf("%q", reflect.TypeOf(n).String()))
		}
		sort.Strings(kinds)
		fmt.Fprintf(&sb, "// %s\nfunc c08Pat%d() Pattern {\n\treturn %s\n}\n\n", s, i, renderPattern(p))
		fmt.Fprintf(&sb, "func Harness_C08_entry_p%d() {\n\tc08Entry(%q, c08Pat%d(), []string{%s}, c09Tree(vchoose(c09NTrees)))\n\tvreach(\"end\")\n}\n\n",
			i, fmt.Sprintf("pattern %d", i), i, strings.Join(kinds, ", "))
		short := s
		if len(short) > 90 {
			short = short[:90] + "…"
		}
		entries = append(entries, Entry{Fn: fmt.Sprintf("Harness_C08_entry_p%d", i), Tiers: "both", Reach: []string{"end"},
			Bounds: "pattern: " + short + " ; 19 expression shapes with symbolic leaves; EntryNodes as computed by the real parser"})
	}
	entries = append(entries, Entry{Fn: "Harness_C08_symbol_names", Tiers: "both", Reach: []string{"end"},
		Bounds: "symbol names path.Ident, (path.Type).Ident, (*path.Type).Ident; 5 path shapes with dots and slashes; all letters symbolic"})
	return map[string]string{"zz_c08_gen.go": sb.String()}, entries, nil
}

func init() {
	Registry["C08"] = func() *Spec {
		spec := &Spec{
			ID:    "C08",
			Level: "model_checking",
			Assumptions: []string{
				"kernel: entry node kinds (pattern/parser.go collectEntryNodes, nodeToASTTypes) and symbol-name parsing (symbolToIndexSymbol); the candidate enumeration through the type index (code.Matches / CouldMatchAny / typeindex.Calls) needs type-checked packages and is outside the claim",
				"a node counts as matched at the kind Match sees after unwrapping the transparent wrappers (ParenExpr, ExprStmt, ...)",
				"patterns without type information (no Symbol/Object/Builtin nodes); 19 expression shapes",
			},
		}
		// the one listed finding: a type symbol reached only through an alias
		// declared in a third package, in a package that does not import the
		// type's package (every program with that site under pattern 8)
		spec.FindingKey = func(v gose.Violation) string {
			if strings.Contains(v.Msg, "site pattern 8 [no import of dep;") && strings.Contains(v.Msg, "use(q.A(5))") &&
				strings.Contains(v.Msg, "is not among the nodes code.Matches yields") {
				return "C08:type_symbol_matched_through_an_alias_from_a_third_package_without_importing_the_type's_package"
			}
			return v.Harness + ":" + strings.ReplaceAll(v.Msg, " ", "_")
		}
		spec.Prepare = func(c *Ctx) error {
			files, entries, err := c08Prepare(c)
			if err != nil {
				return err
			}
			spec.Groups = []Group{{PkgPath: "honnef.co/go/tools/pattern", PkgDir: "pattern", PkgName: "pattern",
				Files: []string{"entry.go", "../C09/ref.go"}, Gen: files, Entries: entries,
				Nop: []string{"honnef.co/go/tools/pattern.MustParse"}}}
			sfiles, sentries, err := c08SitesPrepare(c)
			if err != nil {
				return err
			}
			spec.Groups = append(spec.Groups, Group{PkgPath: "honnef.co/go/tools/analysis/code", PkgDir: "analysis/code", PkgName: "code",
				Files: []string{"sites.go"}, Gen: sfiles, Entries: sentries,
				Nop: []string{"honnef.co/go/tools/pattern.MustParse"}})
			return nil
		}
		return spec
	}
}
