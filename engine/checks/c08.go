package checks

import (
	"fmt"
	"reflect"
	"sort"
	"strings"

	"honnef.co/go/tools/pattern"
)

// patterns whose roots exercise the entry-kind computation: Or of wrapped
// alternatives, Not, nested Or, bindings without a node, lists
var c08Patterns = []string{
	`(Or call@(CallExpr _ _) neg@(UnaryExpr "-" _))`,
	`(Or (Binding "a" (BinaryExpr _ _ _)) (Binding "b" (Ident _)))`,
	`(Or (Or (CallExpr _ _) (BasicLit _ _)) (Or (UnaryExpr _ _) (SliceExpr _ _ _ _)))`,
	`(Not (CallExpr _ _))`,
	`(Or (Not (BinaryExpr _ _ _)) (Ident _))`,
	`(Binding "x" (Or (BasicLit "INT" _) (Ident _)))`,
	`(Binding "anything" nil)`,
	`(Or (Ident "a") (Or lit@(BasicLit _ "1") un@(UnaryExpr _ (Or (BasicLit _ _) (Ident _)))))`,
}

func c08Prepare(c *Ctx) (map[string]string, []Entry, error) {
	pats := append([]string{}, c08Patterns...)
	pats = append(pats, c09Patterns...)
	var sb strings.Builder
	sb.WriteString("package pattern\n\n")
	var entries []Entry
	for i, s := range pats {
		var parser pattern.Parser
		p, err := parser.Parse(s)
		if err != nil {
			return nil, nil, fmt.Errorf("pattern %d does not parse: %v\n%s", i, err, s)
		}
		var kinds []string
		for _, n := range p.EntryNodes {
			kinds = append(kinds, fmt.Sprintf("%q", reflect.TypeOf(n).String()))
		}
		sort.Strings(kinds)
		fmt.Fprintf(&sb, "// %s\nfunc c08Pat%d() Pattern {\n\treturn %s\n}\n\n", s, i, renderPattern(p))
		fmt.Fprintf(&sb, "func Harness_C08_entry_p%d() {\n\tc08Entry(%q, c08Pat%d(), []string{%s}, c09Tree(vchoose(c09NTrees)))\n\tvreach(\"end\")\n}\n\n",
			i, fmt.Sprintf("pattern %d", i), i, strings.Join(kinds, ", "))
		short := s
		if len(short) > 90 {
			short = short[:90] + "…"
		}
		entries = append(entries, Entry{Fn: fmt.Sprintf("Harness_C08_entry_p%d", i), Tiers: "both", Reach: []string{"end"},
			Bounds: "pattern: " + short + " ; 16 expression shapes with symbolic leaves; EntryNodes as computed by the real parser"})
	}
	entries = append(entries, Entry{Fn: "Harness_C08_symbol_names", Tiers: "both", Reach: []string{"end"},
		Bounds: "symbol names path.Ident, (path.Type).Ident, (*path.Type).Ident; 5 path shapes with dots and slashes; all letters symbolic"})
	return map[string]string{"zz_c08_gen.go": sb.String()}, entries, nil
}

func init() {
	Registry["C08"] = func() *Spec {
		spec := &Spec{
			ID:    "C08",
			Level: "model_checking",
			Assumptions: []string{
				"kernel: entry node kinds (pattern/parser.go collectEntryNodes, nodeToASTTypes) and symbol-name parsing (symbolToIndexSymbol); the candidate enumeration through the type index (code.Matches / CouldMatchAny / typeindex.Calls) needs type-checked packages and is outside the claim",
				"a node counts as matched at the kind Match sees after unwrapping the transparent wrappers (ParenExpr, ExprStmt, ...)",
				"patterns without type information (no Symbol/Object/Builtin nodes); 16 expression shapes",
			},
		}
		spec.Prepare = func(c *Ctx) error {
			files, entries, err := c08Prepare(c)
			if err != nil {
				return err
			}
			spec.Groups = []Group{{PkgPath: "honnef.co/go/tools/pattern", PkgDir: "pattern", PkgName: "pattern",
				Files: []string{"entry.go", "../C09/ref.go"}, Gen: files, Entries: entries,
				Nop: []string{"honnef.co/go/tools/pattern.MustParse"}}}
			return nil
		}
		return spec
	}
}
