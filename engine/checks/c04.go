package checks

func init() {
	Registry["C04"] = func() *Spec {
		b := "two actions differing in at most one key input; strings of 1-2 lower-case letters, lists of 0-2 strings (nil and empty distinguished), Go version go1.NN with symbolic digits, 2 symbolic bytes of the package hash, dependency fact files of 0-2 symbolic bytes"
		var es []Entry
		for _, n := range []string{"pkghash", "initialisms", "dotimport", "httpstatus", "analyzers", "goversion", "deppath", "depvetx", "cmdline", "checks_not_in_key"} {
			es = append(es, Entry{Fn: "Harness_C04_" + n, Tiers: "both", Reach: []string{"end"}, Bounds: b})
		}
		return &Spec{
			ID:    "C04",
			Level: "model_checking",
			Groups: []Group{{
				PkgPath: "honnef.co/go/tools/lintcmd/runner", PkgDir: "lintcmd/runner", PkgName: "runner",
				Files:   []string{"key.go"},
				Entries: es,
			}, {
				PkgPath: "honnef.co/go/tools/go/loader", PkgDir: "go/loader", PkgName: "loader",
				Files:   []string{"pkghash.go"},
				Entries: func() []Entry {
					var es []Entry
					for _, n := range []string{"pkgpath", "actionid", "file", "gomod", "deppath", "depaction", "depcontent"} {
						es = append(es, Entry{Fn: "Harness_C04_hash_" + n, Tiers: "both", Reach: []string{"end"}, Bounds: "two packages differing in at most one input of computeHash; paths, ids and file contents of 1-2 lower-case letters; one import; with and without export data"})
					}
					return es
				}(),
			}},
			Assumptions: []string{
				"kernel: completeness of the cache key with respect to the documented key inputs (no input dropped or aliased); that these inputs are all that influences analysis results, and whole histories of runs, are outside the claim",
				"SHA-256 is collision-free (modelled as: equal digests <=> equal inputs, for all digests of a path)",
				"key components consist of lower-case letters (so that %s / %q renderings are unambiguous); GODEBUG is empty",
			},
		}
	}
}
