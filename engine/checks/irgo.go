package checks

// irgo renders a go/ir function back into executable Go source according
// to the documented meaning of each instruction (one labelled section per
// basic block, one variable per value, parallel copies for phis on the
// incoming edges). The rendered function is executed by the symbolic
// engine (and compiled natively for replay) next to the original source
// function: that is how "executing the IR" is given meaning for C01.
//
// Unsupported constructs make the function ineligible (it is counted and
// skipped), they are never approximated.

import (
	"fmt"
	"go/constant"
	"go/token"
	"go/types"
	"strconv"
	"strings"

	"honnef.co/go/tools/go/ir"
)

type unsupportedIR struct{ why string }

type irgo struct {
	pkg   *types.Package
	sb    strings.Builder
	depth int
	nfn   int
}

func (g *irgo) unsupported(format string, args ...any) {
	panic(unsupportedIR{fmt.Sprintf(format, args...)})
}

func (g *irgo) typ(t types.Type) string {
	var bad string
	s := types.TypeString(t, func(p *types.Package) string {
		if p.Path() == g.pkg.Path() {
			return ""
		}
		bad = p.Path()
		return p.Name()
	})
	if bad != "" {
		g.unsupported("type from another package: %s", s)
	}
	if b, ok := t.(*types.Basic); ok && b.Kind() == types.UntypedBool {
		return "bool"
	}
	if strings.Contains(s, "untyped") || strings.Contains(s, "invalid") || strings.Contains(s, "deferStack") || strings.Contains(s, "iterator") {
		g.unsupported("unprintable type %s", s)
	}
	return s
}

// fnState is the rendering state of one (possibly nested) function.
type fnState struct {
	g      *irgo
	fn     *ir.Function
	names  map[ir.Value]string
	tuples map[ir.Value]int // number of components of tuple-valued instructions
	id     int
	// named results: allocs that stand for the function's result variables
	// (unused since the recover block is rendered explicitly)
	resultAllocs map[*ir.Alloc]int
	// explicit: the function has a recover block; its body runs in an inner
	// closure and the recover block is rendered as code (see render)
	explicit bool
}

func (g *irgo) newState(fn *ir.Function) *fnState {
	g.nfn++
	return &fnState{g: g, fn: fn, names: map[ir.Value]string{}, tuples: map[ir.Value]int{}, id: g.nfn, resultAllocs: map[*ir.Alloc]int{}}
}

func (st *fnState) label(b *ir.BasicBlock) string { return fmt.Sprintf("b%d_%d", st.id, b.Index) }

// nilOnly reports whether v is the nil constant of a type whose values can
// only be compared with the predeclared nil.
func nilOnly(v ir.Value) bool {
	c, ok := v.(*ir.Const)
	if !ok || c.Value != nil {
		return false
	}
	switch c.Type().Underlying().(type) {
	case *types.Signature, *types.Slice, *types.Map:
		return true
	}
	return false
}

func (st *fnState) constant(c *ir.Const) string {
	g := st.g
	t := c.Type()
	ts := g.typ(t)
	if c.Value == nil {
		switch u := t.Underlying().(type) {
		case *types.Basic:
			switch {
			case u.Info()&types.IsBoolean != 0:
				return ts + "(false)"
			case u.Info()&types.IsNumeric != 0:
				return ts + "(0)"
			case u.Info()&types.IsString != 0:
				return ts + `("")`
			case u.Kind() == types.UnsafePointer:
				return ts + "(nil)"
			}
		case *types.Struct, *types.Array:
			return "(" + ts + "{})"
		case *types.Pointer, *types.Slice, *types.Map, *types.Chan, *types.Signature, *types.Interface:
			return "(" + ts + ")(nil)"
		}
		g.unsupported("zero constant of type %s", ts)
	}
	switch c.Value.Kind() {
	case constant.Bool:
		return fmt.Sprintf("%s(%v)", ts, constant.BoolVal(c.Value))
	case constant.String:
		return fmt.Sprintf("%s(%s)", ts, strconv.Quote(constant.StringVal(c.Value)))
	case constant.Int:
		if b, ok := t.Underlying().(*types.Basic); ok && b.Info()&types.IsString != 0 {
			g.unsupported("integer constant of string type")
		}
		return fmt.Sprintf("%s(%s)", ts, c.Value.ExactString())
	case constant.Float:
		f, _ := constant.Float64Val(c.Value)
		return fmt.Sprintf("%s(%s)", ts, strconv.FormatFloat(f, 'g', -1, 64))
	}
	g.unsupported("constant %s", c)
	return ""
}

// ref renders an operand.
func (st *fnState) ref(v ir.Value) string {
	switch v := v.(type) {
	case nil:
		st.g.unsupported("nil operand")
	case *ir.Const:
		return st.constant(v)
	case *ir.AggregateConst:
		return st.composite(v.Type(), v.Values)
	case *ir.Global:
		if v.Pkg == nil || v.Pkg.Pkg.Path() != st.g.pkg.Path() {
			st.g.unsupported("global of another package %s", v)
		}
		return "(&" + v.Name() + ")"
	case *ir.Function:
		return st.funcRef(v)
	case *ir.Builtin:
		st.g.unsupported("builtin %s used as a value", v.Name())
	}
	if n, ok := st.names[v]; ok {
		return n
	}
	st.g.unsupported("value %s (%T) is not defined in this function", v.Name(), v)
	return ""
}

func (st *fnState) funcRef(f *ir.Function) string {
	if f.Parent() != nil {
		// an anonymous function without free variables is referenced directly
		if len(f.FreeVars) != 0 || f.Synthetic != "" {
			st.g.unsupported("reference to anonymous function %s outside MakeClosure", f)
		}
		g := st.g
		if g.depth > 2 {
			g.unsupported("closure nesting too deep")
		}
		g.depth++
		inner := g.newState(f)
		body := inner.render()
		g.depth--
		return fmt.Sprintf("(func%s {\n%s\t})", inner.signature(), body)
	}
	if f.Synthetic != "" && len(f.TypeArgs()) == 0 {
		st.g.unsupported("synthetic function %s", f)
	}
	if f.Pkg != nil && f.Pkg.Pkg.Path() != st.g.pkg.Path() {
		st.g.unsupported("function of another package %s", f)
	}
	if f.Signature.Recv() != nil {
		return "(" + st.g.typ(f.Signature.Recv().Type()) + ")." + f.Name()
	}
	name := f.Name()
	if targs := f.TypeArgs(); len(targs) > 0 {
		if o := f.Origin(); o != nil {
			name = o.Name()
		} else if i := strings.Index(name, "["); i >= 0 {
			name = name[:i]
		}
		var ts []string
		for _, t := range targs {
			ts = append(ts, st.g.typ(t))
		}
		name += "[" + strings.Join(ts, ", ") + "]"
	}
	return name
}

func (st *fnState) composite(t types.Type, vals []ir.Value) string {
	ts := st.g.typ(t)
	var parts []string
	for _, v := range vals {
		parts = append(parts, st.ref(v))
	}
	return ts + "{" + strings.Join(parts, ", ") + "}"
}

// deferStackish: values that only serve go/ir's explicit defer stack
// (used by range-over-func); they have no meaning in rendered code.
func deferStackish(t types.Type) bool {
	return t != nil && strings.Contains(t.String(), "deferStack")
}

func involvesDeferStack(ins ir.Instruction) bool {
	if v, ok := ins.(ir.Value); ok && deferStackish(v.Type()) {
		return true
	}
	var rands [8]*ir.Value
	for _, op := range ins.Operands(rands[:0]) {
		if *op != nil && deferStackish((*op).Type()) {
			return true
		}
	}
	return false
}

func tupleLen(t types.Type) int {
	if tt, ok := t.(*types.Tuple); ok {
		return tt.Len()
	}
	return -1
}

// declare assigns names to all values of the function and returns the
// variable declarations.
func (st *fnState) declare() string {
	g := st.g
	var sb strings.Builder
	fn := st.fn
	for i, p := range fn.Params {
		st.names[p] = fmt.Sprintf("p%d_%d", st.id, i)
	}
	for i, fv := range fn.FreeVars {
		st.names[fv] = fmt.Sprintf("fv%d_%d", st.id, i)
	}
	st.explicit = fn.Recover != nil
	for _, b := range fn.Blocks {
		for _, ins := range b.Instrs {
			v, ok := ins.(ir.Value)
			if !ok {
				continue
			}
			if involvesDeferStack(ins) {
				continue
			}
			name := fmt.Sprintf("v%d_%s", st.id, v.Name())
			st.names[v] = name
			switch ins := ins.(type) {
			case *ir.Range:
				if b, ok := ins.X.Type().Underlying().(*types.Basic); !ok || b.Info()&types.IsString == 0 {
					g.unsupported("range over %s", ins.X.Type())
				}
				fmt.Fprintf(&sb, "\tvar %s_s string\n\tvar %s_i int\n\t_, _ = %s_s, %s_i\n", name, name, name, name)
				continue
			case *ir.TypeSwitch:
				tt := ins.Type().(*types.Tuple)
				st.tuples[v] = tt.Len()
				for k := 0; k < tt.Len(); k++ {
					et := tt.At(k).Type()
					if k > 0 && k <= len(ins.Conds) {
						if b, ok := et.(*types.Basic); ok && b.Kind() == types.UntypedNil {
							continue // the nil case carries no value
						}
					}
					fmt.Fprintf(&sb, "\tvar %s_%d %s\n\t_ = %s_%d\n", name, k, g.typ(et), name, k)
				}
				continue
			}
			if n := tupleLen(v.Type()); n >= 0 {
				st.tuples[v] = n
				tt := v.Type().(*types.Tuple)
				for k := 0; k < n; k++ {
					fmt.Fprintf(&sb, "\tvar %s_%d %s\n\t_ = %s_%d\n", name, k, g.typ(tt.At(k).Type()), name, k)
				}
				continue
			}
			fmt.Fprintf(&sb, "\tvar %s %s\n\t_ = %s\n", name, g.typ(v.Type()), name)
		}
	}
	return sb.String()
}

var binopText = map[token.Token]string{
	token.ADD: "+", token.SUB: "-", token.MUL: "*", token.QUO: "/", token.REM: "%",
	token.AND: "&", token.OR: "|", token.XOR: "^", token.SHL: "<<", token.SHR: ">>", token.AND_NOT: "&^",
	token.EQL: "==", token.NEQ: "!=", token.LSS: "<", token.LEQ: "<=", token.GTR: ">", token.GEQ: ">=",
}

func (st *fnState) call(cc *ir.CallCommon) string {
	var args []string
	for _, a := range cc.Args {
		args = append(args, st.ref(a))
	}
	if cc.IsInvoke() {
		return fmt.Sprintf("%s.%s(%s)", st.ref(cc.Value), cc.Method.Name(), strings.Join(args, ", "))
	}
	switch f := cc.Value.(type) {
	case *ir.Builtin:
		switch f.Name() {
		case "append":
			if len(args) == 2 {
				return fmt.Sprintf("append(%s, %s...)", args[0], args[1])
			}
			return fmt.Sprintf("append(%s)", strings.Join(args, ", "))
		case "len", "cap", "copy", "delete", "print", "println", "min", "max", "clear", "close", "panic", "recover":
			return fmt.Sprintf("%s(%s)", f.Name(), strings.Join(args, ", "))
		case "ssa:wrapnilchk":
			return args[0]
		}
		st.g.unsupported("builtin %s", f.Name())
	case *ir.Function:
		if f.Signature.Variadic() && len(args) > 0 {
			args[len(args)-1] += "..."
		}
		return fmt.Sprintf("%s(%s)", st.funcRef(f), strings.Join(args, ", "))
	}
	if sig, ok := cc.Value.Type().Underlying().(*types.Signature); ok && sig.Variadic() && len(args) > 0 {
		args[len(args)-1] += "..."
	}
	return fmt.Sprintf("%s(%s)", st.ref(cc.Value), strings.Join(args, ", "))
}

// assign renders "name = expr" (or a tuple assignment / bare statement).
func (st *fnState) assign(v ir.Value, expr string) string {
	if n, ok := st.tuples[v]; ok {
		var lhs []string
		for k := 0; k < n; k++ {
			lhs = append(lhs, fmt.Sprintf("%s_%d", st.names[v], k))
		}
		return strings.Join(lhs, ", ") + " = " + expr
	}
	return st.names[v] + " = " + expr
}

func deref(x string) string { return "(*" + x + ")" }

func (st *fnState) instr(ins ir.Instruction) string {
	g := st.g
	if _, isDefer := ins.(*ir.Defer); !isDefer && involvesDeferStack(ins) {
		return ""
	}
	switch ins := ins.(type) {
	case *ir.DebugRef, *ir.RunDefers:
		return ""
	case *ir.Alloc:
		if k, ok := st.resultAllocs[ins]; ok {
			return fmt.Sprintf("%s = &r%d_%d", st.names[ins], st.id, k)
		}
		return fmt.Sprintf("%s = new(%s)", st.names[ins], g.typ(ins.Type().Underlying().(*types.Pointer).Elem()))
	case *ir.BinOp:
		op, ok := binopText[ins.Op]
		if !ok {
			g.unsupported("binop %s", ins.Op)
		}
		x, y := st.ref(ins.X), st.ref(ins.Y)
		if ins.Op == token.EQL || ins.Op == token.NEQ {
			// funcs, slices and maps compare with the untyped nil only
			if nilOnly(ins.X) {
				x = "nil"
			}
			if nilOnly(ins.Y) {
				y = "nil"
			}
		}
		return fmt.Sprintf("%s = %s(%s %s %s)", st.names[ins], g.typ(ins.Type()), x, op, y)
	case *ir.UnOp:
		op := map[token.Token]string{token.SUB: "-", token.XOR: "^", token.NOT: "!"}[ins.Op]
		if op == "" {
			g.unsupported("unop %s", ins.Op)
		}
		return fmt.Sprintf("%s = %s(%s%s)", st.names[ins], g.typ(ins.Type()), op, st.ref(ins.X))
	case *ir.Load:
		return fmt.Sprintf("%s = *%s", st.names[ins], st.ref(ins.X))
	case *ir.Store:
		return fmt.Sprintf("*%s = %s", st.ref(ins.Addr), st.ref(ins.Val))
	case *ir.BlankStore:
		return fmt.Sprintf("_ = %s", st.ref(ins.Val))
	case *ir.Call:
		expr := st.call(ins.Common())
		if tupleLen(ins.Type()) == 0 {
			return expr
		}
		return st.assign(ins, expr)
	case *ir.Defer:
		if ds := ins.DeferStack; ds != nil {
			// the function's own stack is what a plain defer statement uses
			own := false
			switch d := ds.(type) {
			case *ir.Load:
				if a, ok := d.X.(*ir.Alloc); ok && a.Parent() == st.fn {
					own = true
				}
			case *ir.Call:
				if b, ok := d.Common().Value.(*ir.Builtin); ok && b.Name() == "ssa:deferstack" && d.Parent() == st.fn {
					own = true
				}
			}
			if !own {
				g.unsupported("defer onto another function's defer stack")
			}
		}
		if st.explicit {
			// the probe runs right after this deferred call and notes a
			// panic that is still in flight (see render)
			return "defer irProbe(&irSaw); defer " + st.call(ins.Common())
		}
		return "defer " + st.call(ins.Common())
	case *ir.ChangeType, *ir.Convert, *ir.ChangeInterface, *ir.MakeInterface:
		var x ir.Value
		switch i := ins.(type) {
		case *ir.ChangeType:
			x = i.X
		case *ir.Convert:
			x = i.X
		case *ir.ChangeInterface:
			x = i.X
		case *ir.MakeInterface:
			x = i.X
		}
		v := ins.(ir.Value)
		return fmt.Sprintf("%s = (%s)(%s)", st.names[v], g.typ(v.Type()), st.ref(x))
	case *ir.MakeClosure:
		return st.closure(ins)
	case *ir.MakeMap:
		if ins.Reserve != nil {
			return fmt.Sprintf("%s = make(%s, %s)", st.names[ins], g.typ(ins.Type()), st.ref(ins.Reserve))
		}
		return fmt.Sprintf("%s = make(%s)", st.names[ins], g.typ(ins.Type()))
	case *ir.MakeSlice:
		return fmt.Sprintf("%s = make(%s, %s, %s)", st.names[ins], g.typ(ins.Type()), st.ref(ins.Len), st.ref(ins.Cap))
	case *ir.Slice:
		x := st.ref(ins.X)
		if _, ok := ins.X.Type().Underlying().(*types.Pointer); ok {
			x = deref(x)
		}
		lo, hi, mx := "", "", ""
		if ins.Low != nil {
			lo = st.ref(ins.Low)
		}
		if ins.High != nil {
			hi = st.ref(ins.High)
		}
		if ins.Max != nil {
			mx = ":" + st.ref(ins.Max)
			if hi == "" {
				g.unsupported("3-index slice without high bound")
			}
		}
		return fmt.Sprintf("%s = %s[%s:%s%s]", st.names[ins], x, lo, hi, mx)
	case *ir.FieldAddr:
		stt := ins.X.Type().Underlying().(*types.Pointer).Elem().Underlying().(*types.Struct)
		return fmt.Sprintf("%s = &%s.%s", st.names[ins], st.ref(ins.X), stt.Field(ins.Field).Name())
	case *ir.Field:
		stt := ins.X.Type().Underlying().(*types.Struct)
		return fmt.Sprintf("%s = %s.%s", st.names[ins], st.ref(ins.X), stt.Field(ins.Field).Name())
	case *ir.IndexAddr:
		x := st.ref(ins.X)
		if _, ok := ins.X.Type().Underlying().(*types.Pointer); ok {
			x = deref(x)
		}
		return fmt.Sprintf("%s = &%s[%s]", st.names[ins], x, st.ref(ins.Index))
	case *ir.Index:
		return fmt.Sprintf("%s = %s[%s]", st.names[ins], st.ref(ins.X), st.ref(ins.Index))
	case *ir.StringLookup:
		return fmt.Sprintf("%s = %s[%s]", st.names[ins], st.ref(ins.X), st.ref(ins.Index))
	case *ir.MapLookup:
		return st.assign(ins, fmt.Sprintf("%s[%s]", st.ref(ins.X), st.ref(ins.Index)))
	case *ir.MapUpdate:
		return fmt.Sprintf("%s[%s] = %s", st.ref(ins.Map), st.ref(ins.Key), st.ref(ins.Value))
	case *ir.TypeAssert:
		return st.assign(ins, fmt.Sprintf("%s.(%s)", st.ref(ins.X), g.typ(ins.AssertedType)))
	case *ir.Extract:
		if _, ok := st.tuples[ins.Tuple]; !ok {
			g.unsupported("extract from non-tuple %s", ins.Tuple.Name())
		}
		if ts, ok := ins.Tuple.(*ir.TypeSwitch); ok && ins.Index > 0 && ins.Index <= len(ts.Conds) {
			if b, ok := ts.Conds[ins.Index-1].(*types.Basic); ok && b.Kind() == types.UntypedNil {
				g.unsupported("extract of the nil case of a type switch")
			}
		}
		return fmt.Sprintf("%s = %s_%d", st.names[ins], st.names[ins.Tuple], ins.Index)
	case *ir.CompositeValue:
		return fmt.Sprintf("%s = %s", st.names[ins], st.composite(ins.Type(), ins.Values))
	case *ir.Range:
		n := st.names[ins]
		return fmt.Sprintf("%s_s, %s_i = %s, 0", n, n, st.ref(ins.X))
	case *ir.Next:
		if !ins.IsString {
			g.unsupported("map iteration")
		}
		it := st.names[ins.Iter]
		n := st.names[ins]
		return fmt.Sprintf("%s_0, %s_1, %s_2, %s_i = irNextString(%s_s, %s_i)", n, n, n, it, it, it)
	case *ir.TypeSwitch:
		n := st.names[ins]
		var sb strings.Builder
		last := len(ins.Conds) + 1
		fmt.Fprintf(&sb, "%s_0 = -1; %s_%d = %s\n", n, n, last, st.ref(ins.Tag))
		fmt.Fprintf(&sb, "\tswitch irv := %s.(type) {\n", st.ref(ins.Tag))
		for k, ct := range ins.Conds {
			if b, ok := ct.(*types.Basic); ok && b.Kind() == types.UntypedNil {
				fmt.Fprintf(&sb, "\tcase nil:\n\t\t_ = irv\n\t\t%s_0 = %d\n", n, k)
				continue
			}
			fmt.Fprintf(&sb, "\tcase %s:\n\t\t%s_0 = %d\n\t\t%s_%d = irv\n", g.typ(ct), n, k, n, k+1)
		}
		sb.WriteString("\tdefault:\n\t\t_ = irv\n\t}")
		return sb.String()
	case *ir.Panic:
		return fmt.Sprintf("panic(%s)", st.ref(ins.X))
	}
	g.unsupported("instruction %T", ins)
	return ""
}

// closure renders MakeClosure: the bindings are bound by value at creation.
func (st *fnState) closure(mc *ir.MakeClosure) string {
	g := st.g
	fn, ok := mc.Fn.(*ir.Function)
	if !ok {
		g.unsupported("MakeClosure of %T", mc.Fn)
	}
	if fn.Synthetic != "" && fn.Synthetic != "range-over-func yield" {
		g.unsupported("synthetic closure %s", fn)
	}
	if g.depth > 2 {
		g.unsupported("closure nesting too deep")
	}
	g.depth++
	inner := g.newState(fn)
	body := inner.render()
	g.depth--
	var params, args []string
	for i, fv := range fn.FreeVars {
		params = append(params, fmt.Sprintf("%s %s", inner.names[fv], g.typ(fv.Type())))
		args = append(args, st.ref(mc.Bindings[i]))
	}
	sig := inner.signature()
	return fmt.Sprintf("%s = func(%s) func%s {\n\treturn func%s {\n%s\t}\n\t}(%s)", st.names[mc], strings.Join(params, ", "), sig, sig, body, strings.Join(args, ", "))
}

// signature renders "(params) (results)" with the state's parameter names.
func (st *fnState) signature() string {
	g := st.g
	sig := st.fn.Signature
	var ps []string
	params := st.fn.Params
	if sig.Recv() != nil && len(params) > 0 && st.fn.Parent() == nil {
		// methods are rendered as plain functions taking the receiver first
	}
	for i, p := range params {
		t := g.typ(p.Type())
		if sig.Variadic() && i == len(params)-1 {
			// keep a slice parameter: callers of the rendered function pass a slice
		}
		ps = append(ps, fmt.Sprintf("%s %s", st.names[p], t))
	}
	var rs []string
	named := len(st.resultAllocs) > 0
	for i := 0; i < sig.Results().Len(); i++ {
		t := g.typ(sig.Results().At(i).Type())
		if named {
			rs = append(rs, fmt.Sprintf("r%d_%d %s", st.id, i, t))
		} else {
			rs = append(rs, t)
		}
	}
	return fmt.Sprintf("(%s) (%s)", strings.Join(ps, ", "), strings.Join(rs, ", "))
}

// phiCopies renders the parallel copy for the phis of succ along the k-th
// edge from pred (k counts duplicate edges between the two blocks).
func (st *fnState) phiCopies(pred, succ *ir.BasicBlock, dup int) string {
	idx := -1
	seen := 0
	for i, p := range succ.Preds {
		if p == pred {
			if seen == dup {
				idx = i
				break
			}
			seen++
		}
	}
	if idx < 0 {
		st.g.unsupported("edge %d->%d not found in predecessor list", pred.Index, succ.Index)
	}
	var lhs, rhs []string
	for _, ins := range succ.Instrs {
		phi, ok := ins.(*ir.Phi)
		if !ok {
			break
		}
		lhs = append(lhs, st.names[phi])
		rhs = append(rhs, st.ref(phi.Edges[idx]))
	}
	if len(lhs) == 0 {
		return ""
	}
	return strings.Join(lhs, ", ") + " = " + strings.Join(rhs, ", ") + "; "
}

func (st *fnState) jump(pred *ir.BasicBlock, succIdx int) string {
	succ := pred.Succs[succIdx]
	dup := 0
	for i := 0; i < succIdx; i++ {
		if pred.Succs[i] == succ {
			dup++
		}
	}
	return st.phiCopies(pred, succ, dup) + "goto " + st.label(succ)
}

// render produces the body (declarations and labelled blocks).
func (st *fnState) render() string {
	g := st.g
	fn := st.fn
	if len(fn.Blocks) == 0 {
		g.unsupported("no body")
	}
	var sb strings.Builder
	sb.WriteString(st.declare())
	if !st.explicit {
		for _, b := range fn.Blocks {
			st.renderBlock(&sb, b, b.Instrs, true)
		}
		return sb.String()
	}
	// A function with a recover block. go/ir's meaning: Defer pushes a call,
	// RunDefers runs the pushed calls, a panic runs them too, and if one of
	// them recovers, control continues at the recover block. Rendering: the
	// body runs in an inner closure whose Go defers are the pushed calls;
	// reaching RunDefers leaves the closure (which runs them); afterwards
	// the rest of that block runs if no panic was seen, else the recover
	// block. irProbe (deferred before every pushed call, so it runs right
	// after it) notes a panic raised while the pushed calls run.
	sb.WriteString("\tirNormal, irSaw, irExit := false, false, 0\n\t_, _, _ = irNormal, irSaw, irExit\n")
	sb.WriteString("\tfunc() {\n")
	type cont struct {
		b    *ir.BasicBlock
		rest []ir.Instruction
	}
	var conts []cont
	for _, b := range fn.Blocks {
		if b == fn.Recover {
			continue
		}
		cut := -1
		for i, ins := range b.Instrs {
			if _, ok := ins.(*ir.RunDefers); ok {
				cut = i
				break
			}
		}
		if cut < 0 {
			for _, ins := range b.Instrs {
				if _, ok := ins.(*ir.Return); ok {
					g.unsupported("return without RunDefers in a function with a recover block")
				}
			}
			st.renderBlock(&sb, b, b.Instrs, true)
			continue
		}
		st.renderBlock(&sb, b, b.Instrs[:cut], true)
		conts = append(conts, cont{b, b.Instrs[cut+1:]})
		fmt.Fprintf(&sb, "\tirNormal, irExit = true, %d\n\treturn\n", len(conts))
	}
	sb.WriteString("\t}()\n")
	if len(conts) > 0 {
		sb.WriteString("\tif irNormal && !irSaw {\n\t\tswitch irExit {\n")
		for i := range conts {
			fmt.Fprintf(&sb, "\t\tcase %d:\n\t\t\tgoto irCont%d_%d\n", i+1, st.id, i+1)
		}
		sb.WriteString("\t\t}\n\t}\n")
	}
	fmt.Fprintf(&sb, "\tgoto irRecover%d\n", st.id)
	for i, c := range conts {
		fmt.Fprintf(&sb, "irCont%d_%d:\n", st.id, i+1)
		for _, ins := range c.rest {
			switch ins.(type) {
			case *ir.Jump, *ir.If, *ir.ConstantSwitch:
				g.unsupported("control flow after RunDefers")
			}
		}
		st.renderBlock(&sb, c.b, c.rest, false)
	}
	fmt.Fprintf(&sb, "irRecover%d:\n", st.id)
	st.renderBlock(&sb, fn.Recover, fn.Recover.Instrs, false)
	return sb.String()
}

// renderBlock renders the given instructions of block b, preceded by the
// block's label if label is set and the block has predecessors.
func (st *fnState) renderBlock(sb *strings.Builder, b *ir.BasicBlock, instrs []ir.Instruction, label bool) {
	fn := st.fn
	if label {
		if b == fn.Recover {
			return // reached only through the run-time's recovery, which Go performs itself
		}
		if b.Index != 0 || len(b.Preds) > 0 {
			if len(b.Preds) == 0 {
				return // unreachable
			}
			fmt.Fprintf(sb, "%s:\n", st.label(b))
		}
	}
	for _, ins := range instrs {
		switch t := ins.(type) {
		case *ir.Phi:
			continue
		case *ir.Jump:
			fmt.Fprintf(sb, "\t%s\n", st.jump(b, 0))
		case *ir.If:
			fmt.Fprintf(sb, "\tif %s { %s } else { %s }\n", st.ref(t.Cond), st.jump(b, 0), st.jump(b, 1))
		case *ir.ConstantSwitch:
			def := -1
			sb.WriteString("\tswitch {\n")
			for k, c := range t.Conds {
				if c == nil {
					def = k
					continue
				}
				if cc, ok := c.(*ir.Const); ok && cc.Value != nil && cc.Value.Kind() == constant.Int {
					if v, exact := constant.Int64Val(cc.Value); exact && v == -1 {
						if _, isTS := t.Tag.(*ir.Extract); isTS {
							def = k // the default of a type switch is encoded as index -1
							continue
						}
					}
				}
				fmt.Fprintf(sb, "\tcase %s == %s:\n\t\t%s\n", st.ref(t.Tag), st.ref(c), st.jump(b, k))
			}
			if def >= 0 {
				fmt.Fprintf(sb, "\tdefault:\n\t\t%s\n", st.jump(b, def))
			} else {
				sb.WriteString("\tdefault:\n\t\tpanic(\"ir: constant switch without matching case\")\n")
			}
			sb.WriteString("\t}\n")
		case *ir.Return:
			var rs []string
			for _, r := range t.Results {
				rs = append(rs, st.ref(r))
			}
			fmt.Fprintf(sb, "\treturn %s\n", strings.Join(rs, ", "))
		case *ir.Unreachable:
			sb.WriteString("\tpanic(\"ir: unreachable\")\n")
		case *ir.Panic:
			fmt.Fprintf(sb, "\t%s\n", st.instr(ins))
		default:
			if s := st.instr(ins); s != "" {
				fmt.Fprintf(sb, "\t%s\n", s)
			}
		}
	}
}

// RenderFunction renders fn as a Go function named name. It returns the
// source text, or the reason why the function is not eligible.
func RenderFunction(pkg *types.Package, fn *ir.Function, name string) (text string, why string) {
	defer func() {
		if r := recover(); r != nil {
			if u, ok := r.(unsupportedIR); ok {
				text, why = "", u.why
				return
			}
			panic(r)
		}
	}()
	g := &irgo{pkg: pkg}
	st := g.newState(fn)
	body := st.render()
	return fmt.Sprintf("func %s%s {\n%s}\n", name, st.signature(), body), ""
}

// irSupport is emitted once per rendered file.
const irSupport = `
// irProbe is deferred immediately before every deferred call of a rendered
// function with a recover block, so it runs right after that call: a panic
// still in flight is noted and passed on.
func irProbe(saw *bool) {
	if r := recover(); r != nil {
		*saw = true
		panic(r)
	}
}

// irNextString is the meaning of go/ir's Next on a string iterator:
// (ok, byte index, rune) and the advanced position.
func irNextString(s string, i int) (bool, int, rune, int) {
	if i >= len(s) {
		return false, 0, 0, i
	}
	if c := s[i]; c < 0x80 {
		return true, i, rune(c), i + 1
	}
	r, n := irutf8.DecodeRuneInString(s[i:])
	return true, i, r, i + n
}
`
