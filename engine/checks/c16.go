package checks

// C16 (fix clauses): the real simplification and quick-fix analyzers run
// natively over the corpus; every suggested fix is applied to a copy of the
// enclosing function and the fixed function is executed by the symbolic
// engine next to the original on the same symbolic inputs (results, panic
// outcome, stores through arguments, trace of opaque calls must agree).
// Edits out of bounds / overlapping, a patched file that does not parse and
// a patched function that does not type-check are reported as violations of
// the "applies cleanly" clauses (they are preconditions of the encoding).

import (
	"bytes"
	"fmt"
	"go/ast"
	"go/format"
	"go/parser"
	"go/token"
	"go/types"
	"os"
	"regexp"
	"sort"
	"strings"

	"golang.org/x/tools/go/analysis"
	"golang.org/x/tools/go/packages"

	"honnef.co/go/tools/quickfix"
	"honnef.co/go/tools/simple"
)

// checks whose fix is not claimed to be an equivalent rewrite
var c16NotEquivalent = map[string]string{
	"QF1009": "== on time.Time and Time.Equal differ by design",
}

// the import list of the files holding fixed functions: the property lets
// the import list be adjusted, so every package a fix may refer to is
// imported (and kept used)
const c16Imports = `import (
	"bytes"
	"errors"
	"fmt"
	"io"
	"math"
	"slices"
	"sort"
	"strings"
	"time"
)

var (
	_ = bytes.Equal
	_ = errors.New
	_ = fmt.Sprint
	_ io.Writer
	_ = math.Pow
	_ = slices.Contains[[]int]
	_ = sort.Ints
	_ = strings.Contains
	_ time.Duration
)

`

var c16PosRe = regexp.MustCompile(`(/[^ :]+\.go:)?\d+:\d+:? ?| \(and \d+ more errors\)`)

type c16Fix struct {
	Check, Func, Name, Text string
}

func c16Prepare(c *Ctx) (files map[string]string, entries []Entry, err error) {
	dir := corpusDir()
	var as []*analysis.Analyzer
	for _, a := range simple.Analyzers {
		as = append(as, a.Analyzer)
	}
	for _, a := range quickfix.Analyzers {
		as = append(as, a.Analyzer)
	}
	res, err := runAnalyzers(dir, nil, []string{"./fixc"}, as)
	if err != nil {
		return nil, nil, err
	}
	cfg := &packages.Config{Mode: packages.LoadAllSyntax, Dir: dir, Env: os.Environ()}
	pkgs, err := packages.Load(cfg, "./fixc")
	if err != nil {
		return nil, nil, err
	}
	if packages.PrintErrors(pkgs) > 0 {
		return nil, nil, fmt.Errorf("corpus does not type-check")
	}
	pkg := pkgs[0]
	srcs := map[string][]byte{}
	for _, f := range pkg.GoFiles {
		b, err := os.ReadFile(f)
		if err != nil {
			return nil, nil, err
		}
		srcs[f] = b
	}
	applicability := func(format string, args ...any) {
		msg := fmt.Sprintf(format, args...)
		// the key names the check, the function and the error, not the position
		key := "applicability:" + strings.ReplaceAll(c16PosRe.ReplaceAllString(msg, ""), " ", "_")
		dirp := fmt.Sprintf("%s/replays/C16/%x", OutDir, hashStr(key))
		os.MkdirAll(dirp, 0o755)
		os.WriteFile(dirp+"/violation.json", []byte(fmt.Sprintf("{\"kind\": \"fix does not apply cleanly\", \"detail\": %q}\n", msg)), 0o644)
		os.WriteFile(dirp+"/native_output.txt", []byte(msg+"\n"), 0o644)
		c.Viol = append(c.Viol, ViolationRecord{Key: key, Msg: msg, Harness: "fix applicability", ReplayDir: dirp, Reproduced: true, Note: "fix produced natively by the real analyzer"})
	}
	var fixes []c16Fix
	diags := res.Diagnostics
	sort.Slice(diags, func(i, j int) bool {
		a, b := diags[i], diags[j]
		if a.Position.Line != b.Position.Line {
			return a.Position.Line < b.Position.Line
		}
		return a.Category < b.Category
	})
	nd := 0
	perCheck := map[string]int{}
	for _, d := range diags {
		for fi, sf := range d.SuggestedFixes {
			if len(sf.TextEdits) == 0 {
				continue
			}
			file := sf.TextEdits[0].Position.Filename
			src, ok := srcs[file]
			if !ok {
				applicability("%s at %s: edit in a file outside the package: %s", d.Category, d.Position, file)
				continue
			}
			edits := append([]struct {
				s, e int
				t    []byte
			}{}, nil...)
			bad := false
			for _, e := range sf.TextEdits {
				if e.Position.Filename != file || e.End.Filename != file {
					applicability("%s at %s: edits of one fix span several files", d.Category, d.Position)
					bad = true
					break
				}
				if e.Position.Offset < 0 || e.End.Offset < e.Position.Offset || e.End.Offset > len(src) {
					applicability("%s at %s: edit [%d,%d) outside the file (%d bytes)", d.Category, d.Position, e.Position.Offset, e.End.Offset, len(src))
					bad = true
					break
				}
				edits = append(edits, struct {
					s, e int
					t    []byte
				}{e.Position.Offset, e.End.Offset, e.NewText})
			}
			if bad {
				continue
			}
			sort.Slice(edits, func(i, j int) bool { return edits[i].s < edits[j].s })
			for i := 1; i < len(edits); i++ {
				if edits[i].s < edits[i-1].e {
					applicability("%s at %s: overlapping edits", d.Category, d.Position)
					bad = true
				}
			}
			if bad {
				continue
			}
			var out bytes.Buffer
			pos := 0
			for _, e := range edits {
				out.Write(src[pos:e.s])
				out.Write(e.t)
				pos = e.e
			}
			out.Write(src[pos:])
			fset := token.NewFileSet()
			pf, perr := parser.ParseFile(fset, file, out.Bytes(), parser.ParseComments)
			if perr != nil {
				applicability("%s at %s: the fixed file does not parse: %v", d.Category, d.Position, perr)
				continue
			}
			// the function that contained the diagnostic
			origF, _ := parser.ParseFile(token.NewFileSet(), file, src, 0)
			fname := ""
			for _, decl := range origF.Decls {
				if fd, ok := decl.(*ast.FuncDecl); ok {
					if int(fd.Pos())-1 <= edits[0].s && edits[0].s <= int(fd.End())-1 {
						fname = fd.Name.Name
					}
				}
			}
			if fname == "" {
				continue // fix outside any function (declarations): no behaviour to compare
			}
			var fixedDecl *ast.FuncDecl
			for _, decl := range pf.Decls {
				if fd, ok := decl.(*ast.FuncDecl); ok && fd.Name.Name == fname && fd.Recv == nil {
					fixedDecl = fd
				}
			}
			if fixedDecl == nil {
				applicability("%s at %s: function %s disappeared after the fix", d.Category, d.Position, fname)
				continue
			}
			nd++
			perCheck[d.Category]++
			name := fmt.Sprintf("%s__%s_%d_%d", fname, d.Category, nd, fi)
			fixedDecl.Name.Name = name
			fixedDecl.Doc = nil
			var fb bytes.Buffer
			if err := format.Node(&fb, fset, fixedDecl); err != nil {
				applicability("%s at %s: cannot print the fixed function: %v", d.Category, d.Position, err)
				continue
			}
			fixes = append(fixes, c16Fix{Check: d.Category, Func: fname, Name: name, Text: fb.String()})
		}
	}
	// type-check precondition and harness generation
	var fsb, hsb strings.Builder
	fsb.WriteString("package fixc\n\n" + c16Imports)
	hsb.WriteString("package fixc\n\n")
	byFunc := map[string][]c16Fix{}
	var order []string
	for _, f := range fixes {
		if len(byFunc[f.Func]) == 0 {
			order = append(order, f.Func)
		}
		byFunc[f.Func] = append(byFunc[f.Func], f)
	}
	var skipped []string
	nfix := 0
	for _, fn := range order {
		obj, ok := pkg.Types.Scope().Lookup(fn).(*types.Func)
		if !ok {
			continue
		}
		var variants []string
		for _, f := range byFunc[fn] {
			// type-check the fixed function in the package
			ov := map[string][]byte{dir + "/fixc/zz_probe.go": []byte("package fixc\n\n" + c16Imports + f.Text)}
			pcfg := &packages.Config{Mode: packages.NeedTypes | packages.NeedSyntax | packages.NeedTypesInfo | packages.NeedName | packages.NeedFiles | packages.NeedImports | packages.NeedDeps, Dir: dir, Overlay: ov, Env: os.Environ()}
			pp, perr := packages.Load(pcfg, "./fixc")
			if perr != nil || len(pp) == 0 || len(pp[0].Errors) > 0 {
				detail := fmt.Sprint(perr)
				if len(pp) > 0 && len(pp[0].Errors) > 0 {
					detail = pp[0].Errors[0].Error()
				}
				applicability("%s in %s: the fixed function does not type-check: %s", f.Check, fn, detail)
				continue
			}
			if _, notEq := c16NotEquivalent[f.Check]; notEq {
				continue // applies cleanly; behaviour is not claimed to be preserved
			}
			fsb.WriteString(f.Text + "\n\n")
			variants = append(variants, f.Name)
		}
		if len(variants) == 0 {
			continue
		}
		h, ok := c01Harness(fn, obj.Type().(*types.Signature), variants, pkg.Types)
		if !ok {
			skipped = append(skipped, fn+": signature outside the harness generator's types")
			continue
		}
		h = strings.ReplaceAll(h, "differs from the source function", "differs from the function before the fix")
		fmt.Fprintf(&hsb, "func Harness_C16_%s() {\n%s\tvreach(\"end\")\n}\n\n", fn, h)
		var cks []string
		for _, f := range byFunc[fn] {
			cks = append(cks, f.Check)
		}
		entries = append(entries, Entry{Fn: "Harness_C16_" + fn, Tiers: "both", Reach: []string{"end"}, Bounds: "fixes of " + strings.Join(cks, ",") + "; symbolic scalars; loop bounds -1..4; slices of length 0-2"})
		nfix += len(variants)
	}
	c.Extra["programs"] = nfix
	c.Extra["fixes_per_check"] = perCheck
	c.Extra["functions_skipped"] = skipped
	fmt.Printf("[C16] %d fixes over %d functions (%v), %d skipped\n", nfix, len(entries), perCheck, len(skipped))
	return map[string]string{"zz_fixed.go": fsb.String(), "zz_c16.go": hsb.String()}, entries, nil
}

func init() {
	Registry["C16"] = func() *Spec {
		spec := &Spec{
			ID:    "C16",
			Level: "translation_validation",
			Assumptions: []string{
				"programs: the corpus /verif/corpus/fixc (trigger shapes of the S1xxx/QF1xxx checks with operands of every relational operator, negations, mixed && / ||, calls with side effects); fixes come from the real analyzers, run natively on every run",
				"behavioural clause only for checks whose fix is an equivalent rewrite (QF1009: only the applies-cleanly clauses); position clauses (line/column exist) are not covered",
				"parameters named n, m, k, i are loop bounds restricted to -1..4; slices have length <= 2",
			},
		}
		spec.Prepare = func(c *Ctx) error {
			files, entries, err := c16Prepare(c)
			if err != nil {
				return err
			}
			spec.Groups = []Group{{PkgPath: "verifcorpus/fixc", PkgDir: "fixc", PkgName: "fixc", Root: corpusDir(), Gen: files, Entries: entries}}
			return nil
		}
		return spec
	}
}
