package checks

func init() {
	Registry["C20"] = func() *Spec {
		b := "versions go1.N with N in 0..99 (digits symbolic, 1- and 2-digit shapes enumerated); file //go:build version absent or present; language version of the file arbitrary"
		return &Spec{
			ID:    "C20",
			Level: "model_checking",
			Groups: []Group{{
				PkgPath: "honnef.co/go/tools/analysis/report",
				PkgDir:  "analysis/report",
				PkgName: "report",
				Files:   []string{"report.go"},
				Entries: []Entry{
					{Fn: "Harness_C20_min_language", Tiers: "both", Reach: []string{"end"}, Bounds: b},
					{Fn: "Harness_C20_max_language", Tiers: "both", Reach: []string{"end"}, Bounds: b},
					{Fn: "Harness_C20_min_stdlib", Tiers: "both", Reach: []string{"end"}, Bounds: b},
					{Fn: "Harness_C20_max_stdlib", Tiers: "both", Reach: []string{"end"}, Bounds: b},
					{Fn: "Harness_C20_unrestricted", Tiers: "both", Reach: []string{"end"}, Bounds: b},
					{Fn: "Harness_C20_sequence", Tiers: "both", Reach: []string{"end"}, Bounds: b + "; two consecutive reports, the first with any bound kind, the second with any bound kind or none; sync.Pool modelled as a LIFO that never drops items"},
					{Fn: "Harness_C20_two_options", Tiers: "both", Reach: []string{"end"}, Bounds: b + "; one report with two bounds of different kinds"},
				},
			}, {
				PkgPath: "honnef.co/go/tools/lintcmd",
				PkgDir:  "lintcmd",
				PkgName: "lintcmd",
				Files:   []string{"chain.go"},
				Entries: []Entry{
					{Fn: "Harness_C20_chain", Tiers: "both", Reach: []string{"end"}, Bounds: "-go absent or 1.N, module go 1.N, file //go:build go1.N absent or present, N in {9, 20, 21, 22, 26}; bound go1.N with symbolic digits, all four bound kinds; flag parsing, loader, parser and go/types executed in the engine"},
				},
			}},
			Assumptions: []string{
				"kernel harnesses: types.Info.FileVersions and types.Package.GoVersion are inputs; how the loader derives them from the -go flag, go.mod and build constraints is covered by Harness_C20_chain only for the listed thresholds",
				"versions are of the form go1.N, 0 <= N <= 99, no patch or pre-release suffix",
			},
		}
	}
}
