package checks

func init() {
	Registry["C19"] = func() *Spec {
		return &Spec{
			ID:    "C19",
			Level: "model_checking",
			Groups: []Group{{
				PkgPath: "honnef.co/go/tools/cmd/structlayout-optimize",
				PkgDir:  "cmd/structlayout-optimize",
				PkgName: "main",
				Files:   []string{"optimize.go"},
				Entries: []Entry{
					{Fn: "Harness_C19_optimize_n1", Tiers: "both", Reach: []string{"end"}, Bounds: "1 field, size = k*align, 0<=k<2^24, align in {1,2,4,8}"},
					{Fn: "Harness_C19_optimize_n2", Tiers: "both", Reach: []string{"end"}, Bounds: "2 fields, size = k*align, 0<=k<2^24, align in {1,2,4,8}"},
					{Fn: "Harness_C19_optimize_n3", Tiers: "both", Reach: []string{"end"}, Bounds: "3 fields, same ranges"},
					{Fn: "Harness_C19_combine_n2", Tiers: "both", Reach: []string{"end"}, Bounds: "default mode (combine, then optimize): 2 top-level fields without nesting, same ranges"},
					{Fn: "Harness_C19_combine_n3", Tiers: "both", Reach: []string{"end"}, Bounds: "default mode: 3 top-level fields without nesting"},
				},
			}, {
				PkgPath: "honnef.co/go/tools/go/gcsizes",
				PkgDir:  "go/gcsizes",
				PkgName: "gcsizes",
				Files:   []string{"gcsizes.go"},
				Entries: []Entry{
					{Fn: "Harness_C19_gcsizes_flat3", Tiers: "both", Reach: []string{"end"}, Bounds: "structs of 0-3 fields over 12 basic kinds, pointer, slice, interface (no nesting)"},
					{Fn: "Harness_C19_gcsizes_nested1", Tiers: "both", Reach: []string{"end"}, Bounds: "structs of 0-1 field; the field may be an array (symbolic length < 2^16 over 5 leaf kinds, or length 0-2), a nested or named struct of 0-2 fields"},
					{Fn: "Harness_C19_gcsizes_nested2", Tiers: "thorough", Reach: []string{"end"}, Bounds: "structs of 0-2 fields; fields may be arrays (symbolic length < 2^16 over leaf types, or length 0-2 over anything), nested structs of 0-2 fields, named structs"},
				},
			}, {
				PkgPath: "honnef.co/go/tools/cmd/structlayout",
				PkgDir:  "cmd/structlayout",
				PkgName: "main",
				Files:   []string{"layout.go"},
				Entries: []Entry{
					{Fn: "Harness_C19_layout_flat3", Tiers: "both", Reach: []string{"end"}, Bounds: "structs of 1-3 fields over 6 basic kinds and arrays of length 0-2 (incl. trailing zero-size fields)"},
					{Fn: "Harness_C19_layout_nested2q", Tiers: "both", Reach: []string{"end"}, Bounds: "int64 or nested struct (0-2 fields), then an arbitrary field (basic, array, nested struct, struct{}), optionally a third basic field"},
					{Fn: "Harness_C19_layout_deep2q", Tiers: "both", Reach: []string{"end"}, Bounds: "nesting depth 2: {small; struct{small; struct{small; small}; [small]}; [small]} with small in {int8, int64, [0]int32, struct{}}, inner struct first or second"},
					{Fn: "Harness_C19_layout_nested2", Tiers: "thorough", Reach: []string{"end"}, Bounds: "structs of 1-2 fields; fields may be nested structs of 0-2 fields or struct{}"},
				},
			}},
			Assumptions: []string{
				"input layout is valid: every field size is a multiple of its alignment; alignments are powers of two <= 8",
				"sequential execution; go/ssa is the trusted front-end; solver answers cross-checked in the thorough tier",
			},
		}
	}
}
