package checks

func init() {
	Registry["C19"] = func() *Spec {
		return &Spec{
			ID:    "C19",
			Level: "model_checking",
			Groups: []Group{{
				PkgPath: "honnef.co/go/tools/cmd/structlayout-optimize",
				PkgDir:  "cmd/structlayout-optimize",
				PkgName: "main",
				Files:   []string{"optimize.go"},
				Entries: []Entry{
					{Fn: "Harness_C19_optimize_n1", Tiers: "both", Reach: []string{"end"}, Bounds: "1 field, size = k*align, 0<=k<4096, align in {1,2,4,8}"},
					{Fn: "Harness_C19_optimize_n2", Tiers: "both", Reach: []string{"end"}, Bounds: "2 fields, size = k*align, 0<=k<4096, align in {1,2,4,8}"},
					{Fn: "Harness_C19_optimize_n3", Tiers: "both", Reach: []string{"end"}, Bounds: "3 fields, same ranges"},
					{Fn: "Harness_C19_optimize_n4", Tiers: "thorough", Reach: []string{"end"}, Bounds: "4 fields, same ranges"},
				},
			}},
			Assumptions: []string{
				"input layout is valid: every field size is a multiple of its alignment; alignments are powers of two <= 8",
				"sequential execution; go/ssa is the trusted front-end; solver answers cross-checked in the thorough tier",
			},
		}
	}
}
