package checks

func init() {
	Registry["C14"] = func() *Spec {
		return &Spec{
			ID:    "C14",
			Level: "model_checking",
			Groups: []Group{{
				PkgPath: "honnef.co/go/tools/go/ir", PkgDir: "go/ir", PkgName: "ir",
				Files: []string{"dom.go"},
				Entries: []Entry{
					{Fn: "Harness_C14_dom_n3", Tiers: "both", Reach: []string{"end"}, Bounds: "all CFGs on 3 blocks (entry without predecessors, self-loops allowed), all blocks reachable; query pair symbolic"},
					{Fn: "Harness_C14_dom_n4", Tiers: "both", Reach: []string{"end"}, Bounds: "all CFGs on 4 blocks (4096 adjacency shapes before the reachability assumption)"},
					{Fn: "Harness_C14_dom_n4_recover", Tiers: "both", Reach: []string{"end"}, Bounds: "all CFGs on 3 blocks + recover block with its own disjoint region"},
					{Fn: "Harness_C14_dom_n8_sampled", Tiers: "both", Reach: []string{"end"}, Bounds: "400 graphs on 8 blocks drawn from a fixed pseudo-random sequence (out-degree <= 2; graphs with unreachable blocks are discarded); query pair symbolic"},
					{Fn: "Harness_C14_dom_n10_sampled", Tiers: "thorough", Reach: []string{"end"}, Bounds: "2000 graphs on 10 blocks from the same sequence"},
					{Fn: "Harness_C14_dom_n5_recover", Tiers: "thorough", Reach: []string{"end"}, Bounds: "all CFGs on 4 blocks + recover block, out-degree <= 2"},
				},
			}},
			Post: func(c *Ctx) error {
				// clause (b): CFGs the builder really produces, naive and lifted form
				max := 16
				if c.Tier == "thorough" {
					max = 20
				}
				runIRChecks(c, false, true, max)
				return nil
			},
			Assumptions: []string{
				"precondition of buildDomTree: every block reachable from the entry or the recover block; the entry and recover blocks have no predecessors; the recover region is disjoint from the entry region",
			},
		}
	}
}
