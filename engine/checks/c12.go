package checks

func init() {
	Registry["C12"] = func() *Spec {
		g := Group{
			PkgPath: "honnef.co/go/tools/lintcmd",
			PkgDir:  "lintcmd",
			PkgName: "lintcmd",
			Files:   []string{"merge.go", "lintfiles.go", "../C11/lintloop.go", "../C17/lintstub.go"},
			Entries: []Entry{
				{Fn: "Harness_C12_semantics_r2", Tiers: "both", Reach: []string{"end"}, Bounds: "2 runs, 2 problems differing in exactly one descriptor field (message|line|end|category|file|column), 2 files, unnamed builds"},
				{Fn: "Harness_C12_semantics_named_r2", Tiers: "both", Reach: []string{"end"}, Bounds: "2 runs named linux|windows, 2 problems differing in message or end"},
				{Fn: "Harness_C12_single_named_r3", Tiers: "both", Reach: []string{"end"}, Bounds: "3 named runs, 1 problem"},
				{Fn: "Harness_C12_order_end_r3", Tiers: "both", Reach: []string{"end"}, Bounds: "3 unnamed runs, 2 problems differing in end only, adjacent transpositions"},
				{Fn: "Harness_C12_order_payload_r2", Tiers: "both", Reach: []string{"end"}, Bounds: "2 runs named linux and windows reporting the same problem with symbolic severities (error, warning, ignored); both orders and a repeated run"},
				{Fn: "Harness_C12_lint_checked_files", Tiers: "both", Reach: []string{"end"}, Bounds: "result loop of (*linter).lint with the runner stubbed: 2 results, failed / initial / skipped symbolic: checked files are those of the analysed packages; problems carry their check's merge strategy"},
				{Fn: "Harness_C12_order_named_r3", Tiers: "thorough", Reach: []string{"end"}, Bounds: "3 named runs, 2 problems differing in end only, adjacent transpositions"},
				{Fn: "Harness_C12_repeat_r3", Tiers: "both", Reach: []string{"end"}, Bounds: "3 named runs, 1 problem, any run repeated at any position"},
				{Fn: "Harness_C12_semantics_r3", Tiers: "thorough", Reach: []string{"end"}, Bounds: "3 runs, 2 problems, all six variations, unnamed"},
				{Fn: "Harness_C12_semantics_named_r3", Tiers: "thorough", Reach: []string{"end"}, Bounds: "3 named runs, 2 problems differing in message or end"},
				{Fn: "Harness_C12_order_r3", Tiers: "thorough", Reach: []string{"end"}, Bounds: "3 unnamed runs, 2 problems (message|end|file), adjacent transpositions"},
				{Fn: "Harness_C12_repeat_r2", Tiers: "thorough", Reach: []string{"end"}, Bounds: "2 named runs, 2 problems (message|end|file), repeated run"},
			},
		}
		return &Spec{
			ID:     "C12",
			Level:  "model_checking",
			Groups: []Group{g},
			Assumptions: []string{
				"a problem's merge strategy is a function of its descriptor (it comes from the check's documentation)",
				"build names are either all empty or all non-empty (from {linux, windows})",
				"observed through the text formatter: End is not printed, so problems differing only in End show as equal lines",
				"gob encoding of the binary format and -matrix process orchestration are outside the claim",
			},
		}
	}
}
