// Package checks holds the per-property check drivers built on the GoSE
// engine: harness overlays, bounds per tier, native replay, evidence.
package checks

import (
	"bufio"
	"crypto/sha256"
	"encoding/json"
	"fmt"
	"os"
	"os/exec"
	"path/filepath"
	"sort"
	"strconv"
	"strings"
	"sync/atomic"
	"time"

	gose "verif/exec"
	"verif/smt"
)

var (
	RepoDir = envOr("VERIF_REPO", "/repo")
	// OutDir receives scratch files, replays and evidence (default: VerifDir);
	// set VERIF_OUT to keep a side run (e.g. against a seeded worktree) apart
	OutDir   = envOr("VERIF_OUT", envOr("VERIF_DIR", "/verif"))
	VerifDir = envOr("VERIF_DIR", "/verif")
)

func envOr(k, d string) string {
	if v := os.Getenv(k); v != "" {
		return v
	}
	return d
}

// Entry is one harness function and the tiers it runs in.
type Entry struct {
	Fn     string
	Tiers  string   // "quick", "thorough" or "both"
	Reach  []string // labels that some path must hit (vacuity guard)
	Bounds string   // human-readable bound statement for the evidence
	Tune   func(c *gose.Config)
	// NoNative: the harness uses stubs and cannot be linked natively
	// (replay goes through Spec.CustomReplay instead).
	NoNative bool
}

// Group is a set of harness files injected into one package.
type Group struct {
	PkgPath string // import path of the package under test
	PkgDir  string // directory relative to the repository root
	PkgName string
	Files   []string // harness files, relative to /verif/harness/<ID>/
	Entries []Entry
	// Extra packages to load (patterns), beyond PkgPath
	Extra []string
	// Nop: functions of the code under test given empty bodies (logging)
	Nop []string
	// Root is the module root the package lives in (default: the repository)
	Root string
	// Gen: generated files (name -> content) injected next to the harness files
	Gen map[string]string
}

type Spec struct {
	ID          string
	Level       string // evidence level
	Groups      []Group
	Assumptions []string
	Trusted     []string
	// CustomReplay confirms a violation natively when the generic
	// same-harness replay is not possible; returns (reproduced, note).
	CustomReplay func(c *Ctx, v gose.Violation, dir string) (bool, string)
	// Prepare runs first and may fill in Groups (generated harnesses).
	Prepare func(c *Ctx) error
	// Post runs additional property-specific work (native/SMT-only parts).
	Post func(c *Ctx) error
	// FindingKey maps a violation to the key looked up in known_findings.txt
	FindingKey func(v gose.Violation) string
}

// Ctx carries the state of one check run.
type Ctx struct {
	Spec      *Spec
	Tier      string
	Seed      int64
	Start     time.Time
	Reports   []*gose.Report
	Bounds    []string
	Functions []string
	Failures  []string // tool failures (exit 2)
	Viol      []ViolationRecord
	Known     []string
	Extra     map[string]any
	Validated int64 // traces validated against the native build
	LoadS     float64
	States    int64
	Trans     int64
	Samples   []any
	Stubs     []string
}

type ViolationRecord struct {
	Key        string `json:"key"`
	Msg        string `json:"msg"`
	Harness    string `json:"harness"`
	ReplayDir  string `json:"replay"`
	Reproduced bool   `json:"reproduced"`
	Note       string `json:"note"`
	Known      bool   `json:"known"`
}

func (c *Ctx) Fail(format string, args ...any) {
	c.Failures = append(c.Failures, fmt.Sprintf(format, args...))
}

func workDir(id string) string {
	d := filepath.Join(OutDir, ".work", id)
	os.MkdirAll(d, 0o755)
	return d
}

// intrinsicDecls is injected (as an overlay file) into every harness
// package for the symbolic run: bodiless declarations the engine intercepts.
func intrinsicDecls(pkg string) string {
	return "package " + pkg + `

func nondetBool() bool
func nondetInt() int
func nondetInt64() int64
func nondetInt32() int32
func nondetInt16() int16
func nondetInt8() int8
func nondetUint() uint
func nondetUint64() uint64
func nondetUint32() uint32
func nondetUint16() uint16
func nondetUint8() uint8
func nondetByte() byte
func nondetString(n int) string
func vassume(bool)
func vassert(bool, string)
func vreach(string)
func vobserve(string, any)
func vconcrete(int) int
func vchoose(int) int
func vsetfield(obj any, name string, v any)
func vgetfield(obj any, name string) any
func vcapture()
func vcaptured() string
func vtempdir() string
`
}

// intrinsicNative gives the same functions native bodies that read the
// replay script (one decimal uint64 per line) named by $VERIF_SCRIPT.
func intrinsicNative(pkg string) string {
	return "package " + pkg + `

import (
	vbufio "bufio"
	vfmt "fmt"
	vos "os"
	vreflect "reflect"
	vstrconv "strconv"
	vstrings "strings"
	vunsafe "unsafe"
)

var (
	vScript   []uint64
	vPos      int
	vObs      []string
	vFailures []string
	vLoaded   bool
)

type vAssumeFailed struct{}

func vload() {
	if vLoaded {
		return
	}
	vLoaded = true
	f, err := vos.Open(vos.Getenv("VERIF_SCRIPT"))
	if err != nil {
		return
	}
	defer f.Close()
	sc := vbufio.NewScanner(f)
	for sc.Scan() {
		u, err := vstrconv.ParseUint(vstrings.TrimSpace(sc.Text()), 10, 64)
		if err == nil {
			vScript = append(vScript, u)
		}
	}
}

func vnext() uint64 {
	vload()
	if vPos < len(vScript) {
		vPos++
		return vScript[vPos-1]
	}
	vPos++
	return 0
}

func nondetBool() bool     { return vnext() != 0 }
func nondetInt() int       { return int(vnext()) }
func nondetInt64() int64   { return int64(vnext()) }
func nondetInt32() int32   { return int32(vnext()) }
func nondetInt16() int16   { return int16(vnext()) }
func nondetInt8() int8     { return int8(vnext()) }
func nondetUint() uint     { return uint(vnext()) }
func nondetUint64() uint64 { return vnext() }
func nondetUint32() uint32 { return uint32(vnext()) }
func nondetUint16() uint16 { return uint16(vnext()) }
func nondetUint8() uint8   { return uint8(vnext()) }
func nondetByte() byte     { return byte(vnext()) }
func nondetString(n int) string {
	b := make([]byte, n)
	for i := range b {
		b[i] = byte(vnext())
	}
	return string(b)
}
func vassume(b bool) {
	if !b {
		panic(vAssumeFailed{})
	}
}
func vassert(b bool, msg string) {
	if !b {
		vFailures = append(vFailures, msg)
	}
}
func vreach(string)     {}
func vconcrete(x int) int { return x }
func vchoose(n int) int {
	if n <= 0 {
		panic(vAssumeFailed{})
	}
	return int(vnext() % uint64(n))
}
func vobserve(label string, v any) { vObs = append(vObs, label+"="+vrender(vreflect.ValueOf(v))) }

func vrender(v vreflect.Value) string {
	if !v.IsValid() {
		return "<nil>"
	}
	switch v.Kind() {
	case vreflect.Bool:
		return vstrconv.FormatBool(v.Bool())
	case vreflect.Int, vreflect.Int8, vreflect.Int16, vreflect.Int32, vreflect.Int64:
		return vstrconv.FormatInt(v.Int(), 10)
	case vreflect.Uint, vreflect.Uint8, vreflect.Uint16, vreflect.Uint32, vreflect.Uint64, vreflect.Uintptr:
		return vstrconv.FormatUint(v.Uint(), 10)
	case vreflect.String:
		return vstrconv.Quote(v.String())
	case vreflect.Float32, vreflect.Float64:
		return vstrconv.FormatFloat(v.Float(), 'g', -1, 64)
	case vreflect.Struct:
		var parts []string
		for i := 0; i < v.NumField(); i++ {
			parts = append(parts, vrender(v.Field(i)))
		}
		return "{" + vstrings.Join(parts, " ") + "}"
	case vreflect.Slice, vreflect.Array:
		var parts []string
		for i := 0; i < v.Len(); i++ {
			parts = append(parts, vrender(v.Index(i)))
		}
		return "[" + vstrings.Join(parts, " ") + "]"
	case vreflect.Interface:
		if v.IsNil() {
			return "<nil>"
		}
		return vrender(v.Elem())
	case vreflect.Pointer:
		if v.IsNil() {
			return "<nil>"
		}
		return "&" + vrender(v.Elem())
	}
	return vfmt.Sprintf("<%s>", v.Kind())
}

func vsetfield(obj any, name string, val any) {
	f := vreflect.ValueOf(obj).Elem().FieldByName(name)
	f = vreflect.NewAt(f.Type(), vunsafe.Pointer(f.UnsafeAddr())).Elem()
	if val == nil {
		f.Set(vreflect.Zero(f.Type()))
		return
	}
	f.Set(vreflect.ValueOf(val).Convert(f.Type()))
}

var (
	vSavedStdout *vos.File
	vCapFile     *vos.File
)

func vcapture() {
	f, err := vos.CreateTemp("", "verifcap")
	if err != nil {
		panic(err)
	}
	vSavedStdout, vCapFile = vos.Stdout, f
	vos.Stdout = f
}

func vtempdir() string {
	d, err := vos.MkdirTemp("", "verifdir")
	if err != nil {
		panic(err)
	}
	vTempDirs = append(vTempDirs, d)
	return d
}

var vTempDirs []string

func vcaptured() string {
	if vCapFile == nil {
		return ""
	}
	vos.Stdout = vSavedStdout
	name := vCapFile.Name()
	vCapFile.Close()
	b, _ := vos.ReadFile(name)
	vos.Remove(name)
	vCapFile = nil
	return string(b)
}

func vgetfield(obj any, name string) any {
	f := vreflect.ValueOf(obj).Elem().FieldByName(name)
	f = vreflect.NewAt(f.Type(), vunsafe.Pointer(f.UnsafeAddr())).Elem()
	return f.Interface()
}
`
}

func replayTest(pkg string, fns []string) string {
	var sb strings.Builder
	sb.WriteString("package " + pkg + "\n\nimport (\n\tvtesting \"testing\"\n\tvos2 \"os\"\n\tvfmt2 \"fmt\"\n)\n\n")
	sb.WriteString("var vHarnesses = map[string]func(){\n")
	for _, f := range fns {
		fmt.Fprintf(&sb, "\t%q: %s,\n", f, f)
	}
	sb.WriteString("}\n\n")
	sb.WriteString(`func TestVerifReplay(t *vtesting.T) {
	name := vos2.Getenv("VERIF_HARNESS")
	h := vHarnesses[name]
	if h == nil {
		t.Skip("no harness selected")
	}
	status := "ok"
	func() {
		defer func() {
			if r := recover(); r != nil {
				if _, ok := r.(vAssumeFailed); ok {
					status = "assume_false"
					return
				}
				status = "panic"
				vfmt2.Printf("VERIF-PANIC: %v\n", r)
			}
		}()
		h()
	}()
	for _, o := range vObs {
		vfmt2.Printf("VERIF-OBS: %s\n", o)
	}
	for _, f := range vFailures {
		vfmt2.Printf("VERIF-FAIL: %s\n", f)
	}
	for _, d := range vTempDirs {
		vos2.RemoveAll(d)
	}
	vfmt2.Printf("VERIF-STATUS: %s\n", status)
}
`)
	return sb.String()
}

// overlayFor builds the go/packages overlay (symbolic run) for a group.
func (g *Group) root() string {
	if g.Root != "" {
		return g.Root
	}
	return RepoDir
}

func (g *Group) overlay(id string) (map[string][]byte, error) {
	ov := map[string][]byte{}
	dir := filepath.Join(g.root(), g.PkgDir)
	for name, content := range g.Gen {
		ov[filepath.Join(dir, name)] = []byte(content)
	}
	for _, f := range g.Files {
		src, err := os.ReadFile(filepath.Join(VerifDir, "harness", id, f))
		if err != nil {
			return nil, err
		}
		ov[filepath.Join(dir, "zz_verif_"+filepath.Base(f))] = src
	}
	ov[filepath.Join(dir, "zz_verif_intrinsics.go")] = []byte(intrinsicDecls(g.PkgName))
	return ov, nil
}

// nativeBinary builds (once per run) the native test binary of a group:
// the same harness files plus native intrinsics and a replay test.
func (g *Group) nativeBinary(id string) (string, error) {
	wd := workDir(id)
	tag := strings.ReplaceAll(g.PkgDir, "/", "_")
	bin := filepath.Join(wd, "native_"+tag+".test")
	dir := filepath.Join(g.root(), g.PkgDir)
	repl := map[string]string{}
	for name, content := range g.Gen {
		f := filepath.Join(wd, tag+"_"+name)
		os.WriteFile(f, []byte(content), 0o644)
		repl[filepath.Join(dir, name)] = f
	}
	for _, f := range g.Files {
		repl[filepath.Join(dir, "zz_verif_"+filepath.Base(f))] = filepath.Join(VerifDir, "harness", id, f)
	}
	// native counterparts of //verif:stub directives
	var hfiles []string
	for _, f := range g.Files {
		hfiles = append(hfiles, filepath.Join(VerifDir, "harness", id, f))
	}
	if stubs := findStubs(hfiles); len(stubs) > 0 {
		srepl, initSrc, err := nativeStubOverlay(g, id, stubs, wd)
		if err != nil {
			return "", err
		}
		for k, v := range srepl {
			repl[k] = v
		}
		if initSrc != "" {
			f := filepath.Join(wd, tag+"_stubinit.go")
			os.WriteFile(f, []byte(initSrc), 0o644)
			repl[filepath.Join(dir, "zz_verif_stubinit.go")] = f
		}
	}
	nat := filepath.Join(wd, tag+"_native.go")
	os.WriteFile(nat, []byte(intrinsicNative(g.PkgName)), 0o644)
	repl[filepath.Join(dir, "zz_verif_native.go")] = nat
	var fns []string
	for _, e := range g.Entries {
		if !e.NoNative {
			fns = append(fns, e.Fn)
		}
	}
	tst := filepath.Join(wd, tag+"_replay_test.go")
	os.WriteFile(tst, []byte(replayTest(g.PkgName, fns)), 0o644)
	repl[filepath.Join(dir, "zz_verif_replay_test.go")] = tst
	ovj, _ := json.Marshal(map[string]any{"Replace": repl})
	ovf := filepath.Join(wd, tag+"_overlay.json")
	os.WriteFile(ovf, ovj, 0o644)
	cmd := exec.Command("go", "test", "-c", "-vet=off", "-overlay", ovf, "-o", bin, ".")
	cmd.Dir = dir
	cmd.Env = os.Environ()
	out, err := cmd.CombinedOutput()
	if err != nil {
		return "", fmt.Errorf("native build of %s failed: %v\n%s", g.PkgDir, err, out)
	}
	return bin, nil
}

type nativeResult struct {
	Status   string
	Obs      []string
	Failures []string
	Panic    string
	Raw      string
}

func runNative(bin, harness string, script []gose.ScriptVal, dir string) (*nativeResult, error) {
	os.MkdirAll(dir, 0o755)
	sf := filepath.Join(dir, "script.txt")
	var sb strings.Builder
	for _, v := range script {
		sb.WriteString(strconv.FormatUint(v.Val, 10) + "\n")
	}
	os.WriteFile(sf, []byte(sb.String()), 0o644)
	cmd := exec.Command("timeout", "120", bin, "-test.run", "^TestVerifReplay$", "-test.v")
	cmd.Env = append(os.Environ(), "VERIF_SCRIPT="+sf, "VERIF_HARNESS="+harness)
	cmd.Dir = dir
	out, _ := cmd.CombinedOutput()
	res := &nativeResult{Raw: string(out)}
	sc := bufio.NewScanner(strings.NewReader(string(out)))
	sc.Buffer(make([]byte, 1<<20), 1<<24)
	for sc.Scan() {
		l := sc.Text()
		switch {
		case strings.HasPrefix(l, "VERIF-OBS: "):
			res.Obs = append(res.Obs, strings.TrimPrefix(l, "VERIF-OBS: "))
		case strings.HasPrefix(l, "VERIF-FAIL: "):
			res.Failures = append(res.Failures, strings.TrimPrefix(l, "VERIF-FAIL: "))
		case strings.HasPrefix(l, "VERIF-PANIC: "):
			res.Panic = strings.TrimPrefix(l, "VERIF-PANIC: ")
		case strings.HasPrefix(l, "VERIF-STATUS: "):
			res.Status = strings.TrimPrefix(l, "VERIF-STATUS: ")
		}
	}
	if res.Status == "" {
		res.Status = "crash"
	}
	return res, nil
}

// ---- known findings ----

type knownFinding struct {
	Kind, Property, Key, Text string
}

func loadKnown() []knownFinding {
	f, err := os.Open(filepath.Join(VerifDir, "known_findings.txt"))
	if err != nil {
		return nil
	}
	defer f.Close()
	var out []knownFinding
	sc := bufio.NewScanner(f)
	for sc.Scan() {
		l := strings.TrimSpace(sc.Text())
		if l == "" || strings.HasPrefix(l, "#") {
			continue
		}
		kind, rest, ok := strings.Cut(l, ":")
		if !ok {
			continue
		}
		kf := knownFinding{Kind: strings.TrimSpace(kind), Text: strings.TrimSpace(rest)}
		for _, fld := range strings.Fields(rest) {
			if v, ok := strings.CutPrefix(fld, "property="); ok {
				kf.Property = v
			}
			if v, ok := strings.CutPrefix(fld, "key="); ok {
				kf.Key = v
			}
		}
		out = append(out, kf)
	}
	return out
}

// ---- running a spec ----

func tierMatch(t, tier string) bool {
	return t == "both" || t == "" || t == tier || (tier == "thorough" && t == "quick+")
}

func Run(spec *Spec, tier string, seed int64) int {
	c := &Ctx{Spec: spec, Tier: tier, Seed: seed, Start: time.Now(), Extra: map[string]any{}}
	known := loadKnown()
	replayRoot := filepath.Join(OutDir, "replays", spec.ID)
	if spec.Prepare != nil {
		if err := spec.Prepare(c); err != nil {
			c.Fail("prepare: %v", err)
			return c.Finish()
		}
	}

	for gi := range spec.Groups {
		g := &spec.Groups[gi]
		var entries []Entry
		for _, e := range g.Entries {
			if only := os.Getenv("VERIF_ONLY"); only != "" {
				if strings.Contains(e.Fn, only) {
					entries = append(entries, e)
				}
				continue
			}
			if tierMatch(e.Tiers, tier) {
				entries = append(entries, e)
			}
		}
		if len(entries) == 0 {
			continue
		}
		ov, err := g.overlay(spec.ID)
		if err != nil {
			c.Fail("overlay: %v", err)
			continue
		}
		pats := append([]string{g.PkgPath}, g.Extra...)
		prog, err := gose.Load(g.root(), ov, pats...)
		if err != nil {
			c.Fail("load %s: %v", g.PkgPath, err)
			continue
		}
		prog.Nops = map[string]bool{}
		for _, n := range g.Nop {
			prog.Nops[n] = true
			c.Stubs = append(c.Stubs, "nop:"+n)
		}
		c.LoadS += prog.LoadSeconds
		for k := range prog.Stubs {
			c.Stubs = append(c.Stubs, k)
		}
		var nativeBin string
		var nativeErr error
		nativeBuilt := false
		getNative := func() (string, error) {
			if !nativeBuilt {
				nativeBuilt = true
				nativeBin, nativeErr = g.nativeBinary(spec.ID)
			}
			return nativeBin, nativeErr
		}
		for _, e := range entries {
			cfg := gose.DefaultConfig()
			if tier == "thorough" {
				cfg.CrossCheckEvery = 25
				cfg.HeavyTimeoutMs = 180_000
				cfg.TimeoutMs = 60_000
			}
			if e.Tune != nil {
				e.Tune(&cfg)
			}
			prog.Cfg = cfg
			rep, err := prog.Run(g.PkgPath, e.Fn)
			if err != nil {
				c.Fail("%s: %v", e.Fn, err)
				continue
			}
			c.Reports = append(c.Reports, rep)
			c.Bounds = append(c.Bounds, e.Fn+": "+e.Bounds)
			c.States += int64(rep.Paths)
			c.Trans += rep.Decisions + rep.Asserts
			fmt.Printf("[%s] %s: paths=%d %v asserts=%d decisions=%d steps=%d unknown=%d wall=%.1fs\n",
				spec.ID, e.Fn, rep.Paths, rep.Status, rep.Asserts, rep.Decisions, rep.Steps, rep.Unknowns, rep.Wall)
			for _, st := range []string{"engine_error", "unsupported", "bound_exceeded"} {
				if rep.Status[st] > 0 {
					c.Fail("%s: %d path(s) ended with %s: %s", e.Fn, rep.Status[st], st, rep.Details[st])
				}
			}
			if rep.Truncated && len(rep.Violations) == 0 {
				c.Fail("%s: exploration truncated (path budget)", e.Fn)
			}
			if len(rep.Inconclusive) > 0 {
				c.Fail("%s: %d assertion(s) inconclusive (solver unknown): %v", e.Fn, len(rep.Inconclusive), rep.Inconclusive[:min(3, len(rep.Inconclusive))])
			}
			for _, lbl := range e.Reach {
				if rep.Reached[lbl] == 0 && len(rep.Violations) == 0 {
					c.Fail("%s: vacuity: no path reached label %q", e.Fn, lbl)
				}
			}
			for _, s := range rep.Samples {
				if len(c.Samples) < 12 {
					c.Samples = append(c.Samples, s)
				}
			}
			// conformance: replay sampled paths natively and in concrete mode
			if !e.NoNative && len(rep.Violations) == 0 {
				c.conformance(prog, g, e, rep, getNative)
			}
			// violations: confirm natively
			seen := map[string]bool{}
			for _, v := range rep.Violations {
				key := e.Fn + ":" + strings.ReplaceAll(v.Msg, " ", "_")
				if spec.FindingKey != nil {
					key = spec.FindingKey(v)
				}
				if seen[key] {
					continue
				}
				seen[key] = true
				h := sha256.Sum256([]byte(fmt.Sprint(key, v.Script)))
				dir := filepath.Join(replayRoot, fmt.Sprintf("%x", h[:6]))
				os.MkdirAll(dir, 0o755)
				vr := ViolationRecord{Key: key, Msg: v.Msg, Harness: e.Fn, ReplayDir: dir}
				vj, _ := json.MarshalIndent(v, "", " ")
				os.WriteFile(filepath.Join(dir, "violation.json"), vj, 0o644)
				switch {
				case !e.NoNative:
					bin, err := getNative()
					if err != nil {
						vr.Note = "native build failed: " + err.Error()
						c.Fail("%v", err)
						break
					}
					nr, _ := runNative(bin, e.Fn, v.Script, dir)
					os.WriteFile(filepath.Join(dir, "native_output.txt"), []byte(nr.Raw), 0o644)
					vr.Reproduced = len(nr.Failures) > 0 || nr.Status == "panic" || nr.Status == "crash"
					vr.Note = fmt.Sprintf("native status=%s failures=%v panic=%q", nr.Status, nr.Failures, nr.Panic)
					atomic.AddInt64(&c.Validated, 1)
				case spec.CustomReplay != nil:
					vr.Reproduced, vr.Note = spec.CustomReplay(c, v, dir)
					atomic.AddInt64(&c.Validated, 1)
				default:
					vr.Note = "no native replay available for this harness"
				}
				for _, k := range known {
					if k.Kind == "finding" && k.Property == spec.ID && k.Key == key {
						vr.Known = true
					}
				}
				c.Viol = append(c.Viol, vr)
			}
			for _, f := range rep.TopFunctions(25) {
				c.Functions = append(c.Functions, e.Fn+": "+f)
			}
		}
	}
	if spec.Post != nil {
		if err := spec.Post(c); err != nil {
			c.Fail("post: %v", err)
		}
	}
	return c.Finish()
}

// conformance pushes solver models of sampled paths through the engine in
// concrete mode and through the natively compiled harness; the observe
// logs and assertion outcomes must agree.
func (c *Ctx) conformance(prog *gose.Program, g *Group, e Entry, rep *gose.Report, getNative func() (string, error)) {
	var scripts [][]gose.ScriptVal
	for _, s := range rep.Samples {
		if s.Model == nil && len(s.Script) == 0 {
			continue
		}
		scripts = append(scripts, s.Script)
	}
	if len(scripts) == 0 {
		return
	}
	bin, err := getNative()
	if err != nil {
		c.Fail("conformance: %v", err)
		return
	}
	for i, sc := range scripts {
		saved := prog.Cfg
		cc := prog.Cfg
		cc.Script = make([]uint64, len(sc))
		for k := range sc {
			cc.Script[k] = sc[k].Val
		}
		if len(cc.Script) == 0 {
			cc.Script = []uint64{}
		}
		prog.Cfg = cc
		crep, err := prog.Run(g.PkgPath, e.Fn)
		prog.Cfg = saved
		if err != nil {
			c.Fail("conformance %s: %v", e.Fn, err)
			return
		}
		dir := filepath.Join(workDir(c.Spec.ID), fmt.Sprintf("conf_%s_%d", e.Fn, i))
		nr, _ := runNative(bin, e.Fn, sc, dir)
		var eobs []string
		if len(crep.Observed) > 0 {
			eobs = crep.Observed[0]
		}
		estatus := "ok"
		for st := range crep.Status {
			estatus = st
		}
		if estatus == "target_panic" {
			estatus = "panic"
		}
		if strings.Join(eobs, "\n") != strings.Join(nr.Obs, "\n") || estatus != nr.Status || (len(crep.Violations) > 0) != (len(nr.Failures) > 0) {
			c.Fail("conformance divergence in %s (script %d): engine status=%s obs=%v viol=%d; native status=%s obs=%v fail=%v\n%s",
				e.Fn, i, estatus, eobs, len(crep.Violations), nr.Status, nr.Obs, nr.Failures, tail(nr.Raw, 600))
			return
		}
		atomic.AddInt64(&c.Validated, 1)
	}
}

func tail(s string, n int) string {
	if len(s) > n {
		return s[len(s)-n:]
	}
	return s
}

// Finish prints verdict lines, writes the evidence file and returns the
// exit code.
func (c *Ctx) Finish() int {
	spec := c.Spec
	exit := 0
	nviol := 0
	known := loadKnown()
	printedKnown := map[string]bool{}
	// violations recorded by property-specific code (not by a harness run)
	// are matched against the listed findings here
	for i := range c.Viol {
		for _, k := range known {
			if k.Kind == "finding" && k.Property == spec.ID && k.Key == c.Viol[i].Key {
				c.Viol[i].Known = true
			}
		}
	}
	for _, v := range c.Viol {
		switch {
		case v.Known && v.Reproduced:
			if !printedKnown[v.Key] {
				printedKnown[v.Key] = true
				text := v.Key
				for _, k := range known {
					if k.Kind == "finding" && k.Property == spec.ID && k.Key == v.Key {
						text = k.Text
					}
				}
				fmt.Printf("KNOWN-FINDING: %s\n", text)
			}
		case v.Reproduced:
			fmt.Printf("VIOLATION property=%s replay=%s\n", spec.ID, v.ReplayDir)
			fmt.Printf("  %s: %s (%s)\n", v.Harness, v.Msg, v.Note)
			nviol++
			exit = 1
		default:
			fmt.Printf("UNCONFIRMED property=%s %s: %s (%s)\n", spec.ID, v.Harness, v.Msg, v.Note)
			c.Fail("counterexample did not reproduce natively: %s: %s (%s)", v.Harness, v.Msg, v.Note)
		}
	}
	for _, f := range c.Failures {
		fmt.Printf("TOOL-FAILURE property=%s %s\n", spec.ID, f)
	}
	if exit == 0 && len(c.Failures) > 0 {
		exit = 2
	}
	c.writeEvidence(nviol)
	return exit
}

func (c *Ctx) writeEvidence(nviol int) {
	spec := c.Spec
	statusTotals := map[string]int{}
	var asserts, steps, unknown int64
	for _, r := range c.Reports {
		for k, v := range r.Status {
			statusTotals[k] += v
		}
		asserts += r.Asserts
		steps += r.Steps
		unknown += r.Unknowns
	}
	samples := c.Samples
	if len(samples) == 0 {
		samples = []any{map[string]any{"note": "no symbolic path sample recorded", "bounds": c.Bounds}}
	}
	sort.Strings(c.Stubs)
	cov := map[string]any{
		"states":                        max(c.States, 0),
		"transitions":                   max(c.Trans, 0),
		"traces_validated_against_impl": c.Validated,
		"samples":                       samples,
		"bounds":                        c.Bounds,
		"path_status":                   statusTotals,
		"assertions_decided":            asserts,
		"instructions_interpreted":      steps,
		"functions_encoded":             c.Functions,
		"queries": map[string]any{
			"total": atomic.LoadInt64(&smt.Global.Queries), "sat": atomic.LoadInt64(&smt.Global.SatN),
			"unsat": atomic.LoadInt64(&smt.Global.UnsatN), "unknown": atomic.LoadInt64(&smt.Global.UnknownN),
			"errors": atomic.LoadInt64(&smt.Global.Errors),
		},
		"solver_s":        float64(atomic.LoadInt64(&smt.Global.Nanos)) / 1e9,
		"load_ssa_s":      c.LoadS,
		"stubs":           c.Stubs,
		"tool_failures":   c.Failures,
		"violations_seen": c.Viol,
		"exhaustive":      len(c.Failures) == 0,
		"explanation":     "states = complete feasible paths explored symbolically; transitions = solver-decided branch decisions + assertion queries; traces_validated = conformance scripts and counterexamples executed against the natively compiled code",
	}
	for k, v := range c.Extra {
		cov[k] = v
	}
	if spec.Level == "translation_validation" {
		if _, ok := cov["programs"]; !ok {
			cov["programs"] = c.States
		}
		if _, ok := cov["disagreements_checked"]; !ok {
			cov["disagreements_checked"] = len(c.Viol)
		}
	}
	if s, ok := cov["states"].(int64); ok && s < 1 {
		cov["states"] = int64(0)
	}
	ev := map[string]any{
		"property_id": spec.ID,
		"tier":        c.Tier,
		"seed":        c.Seed,
		"level":       spec.Level,
		"coverage":    cov,
		"assumptions": append(append([]string{}, spec.Assumptions...), spec.Trusted...),
		"wall_s":      time.Since(c.Start).Seconds(),
		"violations":  nviol,
	}
	os.MkdirAll(filepath.Join(OutDir, "evidence"), 0o755)
	b, _ := json.MarshalIndent(ev, "", " ")
	os.WriteFile(filepath.Join(OutDir, "evidence", spec.ID+".json"), b, 0o644)
}

var Registry = map[string]func() *Spec{}
