package checks

import (
	"fmt"
	"os"
	"path/filepath"
	"sort"
	"strings"
	"sync"
	"time"

	"honnef.co/go/tools/go/ir"

	"verif/smt"
)

type irTarget struct {
	Dir      string
	Patterns []string
	Gen      bool // add the generated programs as an overlay file
}

func corpusDir() string { return filepath.Join(VerifDir, "corpus") }

func irTargets(tier string) []irTarget {
	ts := []irTarget{
		{Dir: corpusDir(), Patterns: []string{"./irc"}, Gen: true},
		{Dir: RepoDir, Patterns: []string{"./pattern", "./config", "./lintcmd/cache", "./analysis/dfa/...", "./go/gcsizes", "./structlayout"}},
	}
	if tier == "thorough" {
		ts = append(ts, irTarget{Dir: RepoDir, Patterns: []string{"./unused", "./analysis/code", "./analysis/facts/...", "./lintcmd/runner"}})
		ts = append(ts, irTarget{Dir: RepoDir, Patterns: []string{"sort", "strings", "strconv", "container/heap", "unicode/utf8"}})
	}
	return ts
}

// runIRChecks builds IR in every mode for every target and runs the
// well-formedness (wf) and/or dominance-exactness (domExact) checks.
func runIRChecks(c *Ctx, wf, domExact bool, maxBlocks int) {
	nfuncs, nblocks, npairs, nqueries, ninstr, ntypq := 0, 0, 0, 0, 0, 0
	skippedBig := 0
	var findings []irFinding
	samples := []any{}
	modes := irModes
	if !wf {
		modes = irModes[:2]
	}
	type item struct {
		fn   *ir.Function
		mode string
	}
	var items []item
	for _, t := range irTargets(c.Tier) {
		var overlay map[string][]byte
		if t.Gen {
			// both tiers use the quick program family (the larger one did not
			// finish within an hour for five builder modes); the thorough
			// tier adds packages and a larger block bound
			genTier := "quick"
			overlay = map[string][]byte{filepath.Join(t.Dir, "irc", "zz_gen.go"): []byte(genPrograms(genTier))}
		}
		for _, m := range modes {
			fns, err := loadIRFuncs(t.Dir, overlay, t.Patterns, m.Mode)
			if err != nil {
				c.Fail("building IR (%s, %v): %v", m.Name, t.Patterns, err)
				continue
			}
			for _, fn := range fns {
				if strings.HasPrefix(fn.Name(), "GGF") {
					continue // the fuel-counting twins of the GGP shapes are for C01
				}
				if len(fn.Blocks) > maxBlocks {
					skippedBig++
					continue
				}
				items = append(items, item{fn, m.Name})
			}
		}
	}
	var mu sync.Mutex
	var wg sync.WaitGroup
	next := 0
	workers := 16
	for w := 0; w < workers; w++ {
		wg.Add(1)
		go func() {
			defer wg.Done()
			sol, err := smt.Start("z3-new", 60_000)
			if err != nil {
				mu.Lock()
				c.Fail("solver: %v", err)
				mu.Unlock()
				return
			}
			defer sol.Close()
			ck := &irChecker{}
			lfuncs, lblocks, lpairs, lqueries, linstr := 0, 0, 0, 0, 0
			var lsamples []any
			for {
				mu.Lock()
				if next >= len(items) {
					mu.Unlock()
					break
				}
				lo := next
				hi := min(lo+32, len(items))
				next = hi
				mu.Unlock()
				for _, it := range items[lo:hi] {
					fn := it.fn
					ck.mode = it.mode
					if fn.Prog != nil {
						ck.fset = fn.Prog.Fset
					}
					n := len(fn.Blocks)
					lfuncs++
					lblocks += n
					for _, b := range fn.Blocks {
						linstr += len(b.Instrs)
					}
					if wf && !ck.structure(fn) {
						continue // the encodings below need structurally sound IR
					}
					d := func() (d *domResult) {
						defer func() {
							if r := recover(); r != nil {
								ck.add("tool", fn, "dominance queries: %v", r)
								d = nil
							}
						}()
						return solverDominance(sol, fn)
					}()
					if d == nil {
						continue
					}
					lqueries += d.queries
					lpairs += n * n
					if domExact {
						checkDomExact(ck, fn, d)
					}
					if wf {
						ck.defUse(fn, d)
						ck.typing(fn)
					}
					if len(lsamples) < 1 && n >= 4 {
						lsamples = append(lsamples, map[string]any{"function": fn.String(), "mode": it.mode, "blocks": n, "dominance_queries": d.queries, "roots": d.root})
					}
				}
				ck.flushTyping()
			}
			mu.Lock()
			nfuncs += lfuncs
			nblocks += lblocks
			npairs += lpairs
			nqueries += lqueries
			ninstr += linstr
			ntypq += ck.typQ
			findings = append(findings, ck.findings...)
			if len(samples) < 3 {
				samples = append(samples, lsamples...)
			}
			mu.Unlock()
		}()
	}
	wg.Wait()
	// report
	known := loadKnown()
	seen := map[string]bool{}
	sort.Slice(findings, func(i, j int) bool { return findings[i].Key() < findings[j].Key() })
	for _, f := range findings {
		if f.Kind == "tool" {
			c.Fail("%s: %s", f.Fn, f.Detail)
			continue
		}
		key := f.Key()
		if seen[key] {
			continue
		}
		seen[key] = true
		dir := filepath.Join(OutDir, "replays", c.Spec.ID, fmt.Sprintf("%x", hashStr(key))[:12])
		os.MkdirAll(dir, 0o755)
		var all []string
		for _, g := range findings {
			if g.Key() == key {
				all = append(all, fmt.Sprintf("[%s] %s: %s", g.Mode, g.Kind, g.Detail))
			}
		}
		os.WriteFile(filepath.Join(dir, "violation.json"), []byte(fmt.Sprintf("{\"function\": %q, \"kind\": %q, \"details\": %q}\n", f.Fn, f.Kind, strings.Join(all, "\n"))), 0o644)
		os.WriteFile(filepath.Join(dir, "native_output.txt"), []byte(strings.Join(all, "\n")+"\n"), 0o644)
		vr := ViolationRecord{Key: key, Msg: f.Kind + ": " + f.Detail, Harness: f.Fn + " [" + f.Mode + "]", ReplayDir: dir, Reproduced: true,
			Note: "IR built natively by the code under test; finding read off the built IR"}
		for _, k := range known {
			if k.Kind == "finding" && k.Property == c.Spec.ID && k.Key == key {
				vr.Known = true
			}
		}
		c.Viol = append(c.Viol, vr)
	}
	c.States += int64(nfuncs)
	c.Trans += int64(nqueries + ntypq)
	c.Validated += int64(nfuncs)
	c.Samples = append(c.Samples, samples...)
	c.Extra["ir_functions"] = nfuncs
	c.Extra["ir_blocks"] = nblocks
	c.Extra["ir_instructions"] = ninstr
	c.Extra["block_pairs_decided"] = npairs
	c.Extra["dominance_queries"] = nqueries
	c.Extra["typing_scripts"] = ntypq
	c.Extra["functions_skipped_over_block_bound"] = skippedBig
	c.Extra["modes"] = func() []string {
		var s []string
		for _, m := range modes {
			s = append(s, m.Name)
		}
		return s
	}()
	c.Bounds = append(c.Bounds, fmt.Sprintf("IR of %d functions (corpus, bounded-exhaustive generated programs, selected repository packages) in %d builder modes; functions up to %d blocks", nfuncs, len(modes), maxBlocks))
	fmt.Printf("[%s] IR checks: %d functions, %d blocks, %d instructions, %d path queries, %d typing scripts, %d findings, %.1fs\n",
		c.Spec.ID, nfuncs, nblocks, ninstr, nqueries, ntypq, len(seen), time.Since(c.Start).Seconds())
}

func hashStr(s string) uint64 {
	var h uint64 = 1469598103934665603
	for i := 0; i < len(s); i++ {
		h ^= uint64(s[i])
		h *= 1099511628211
	}
	return h
}

var _ = ir.NaiveForm

func checkDomExact(ck *irChecker, fn *ir.Function, d *domResult) {
	n := len(fn.Blocks)
	for a := 0; a < n; a++ {
		for b := 0; b < n; b++ {
			if d.root[a] < 0 || d.root[b] < 0 {
				continue
			}
			got := fn.Blocks[a].Dominates(fn.Blocks[b])
			if got != d.dom[a][b] {
				ck.add("dominates", fn, "Dominates(block %d, block %d) = %v, but the path query says %v", a, b, got, d.dom[a][b])
			}
		}
	}
	for b := 0; b < n; b++ {
		if d.root[b] < 0 {
			continue
		}
		id := fn.Blocks[b].Idom()
		if b == d.root[b] {
			if id != nil {
				ck.add("dominates", fn, "root block %d has an immediate dominator", b)
			}
			continue
		}
		if id == nil || !d.dom[id.Index][b] || id.Index == b {
			ck.add("dominates", fn, "Idom(block %d) does not strictly dominate it", b)
			continue
		}
		for a := 0; a < n; a++ {
			if a != b && d.dom[a][b] && !d.dom[a][id.Index] {
				ck.add("dominates", fn, "Idom(block %d)=%d is not dominated by the strict dominator %d", b, id.Index, a)
			}
		}
	}
}

func init() {
	Registry["C02"] = func() *Spec {
		return &Spec{
			ID:    "C02",
			Level: "model_checking",
			Post: func(c *Ctx) error {
				max := 24
				if c.Tier == "thorough" {
					max = 28
				}
				runIRChecks(c, true, false, max)
				return nil
			},
			Assumptions: []string{
				"programs: hand-written corpus (/verif/corpus/irc), bounded-exhaustive generated statement trees, selected repository (thorough: + std) packages; builder modes naive/lifted x debug, serial+uninstantiated generics",
				"typing rules: identical types, except comparison operands (identical or mutually assignable) and operands whose type involves a type parameter (skipped)",
				"definitions in the entry block count as available in the region reachable only from the recover block (named results)",
			},
		}
	}
}
