package checks

// C01: the IR built by go/ir (naive and lifted, with and without debug
// refs) computes what the source function computes. Each function of the
// program corpus is rendered back from its IR into Go (irgo.go) and run by
// the symbolic engine next to the original on the same symbolic inputs;
// results, panic/no-panic outcome, stores through pointer arguments and the
// trace of opaque calls must be equal on every path.

import (
	"fmt"
	"go/types"
	"os"
	"path/filepath"
	"sort"
	"strings"

	"golang.org/x/tools/go/packages"

	"honnef.co/go/tools/go/ir"
	"honnef.co/go/tools/go/ir/irutil"
)

type c01Func struct {
	Name     string
	Sig      *types.Signature
	Variants []string // rendered variant names
	Text     string   // rendered variants
	Harness  string   // harness body (a func literal body called by the dispatcher)
	Skip     string
}

var c01Modes = []irModeSpec{
	{"naive", ir.NaiveForm | ir.InstantiateGenerics | ir.BuildSerially},
	{"lifted", ir.InstantiateGenerics | ir.BuildSerially},
	{"naivedbg", ir.NaiveForm | ir.GlobalDebug | ir.InstantiateGenerics | ir.BuildSerially},
	{"lifteddbg", ir.GlobalDebug | ir.InstantiateGenerics | ir.BuildSerially},
}

// argGen describes how to produce one argument inside the harness.
type argGen struct {
	decl  string // statements drawing the symbolic scalars (executed once)
	make  string // expression building a fresh argument from them (executed per run)
	cmp   func(a, b string) string // statements comparing the argument's pointee after two runs ("" = nothing)
	fresh bool                     // make must be evaluated separately for every run
}

var c01SmallNames = map[string]bool{"n": true, "m": true, "k": true, "i": true}

func c01Arg(g *strings.Builder, idx int, name string, t types.Type, pkg *types.Package) (ag argGen, ok bool) {
	v := fmt.Sprintf("a%d", idx)
	qual := func(p *types.Package) string {
		if p.Path() == pkg.Path() {
			return ""
		}
		return p.Name()
	}
	ts := types.TypeString(t, qual)
	switch u := t.Underlying().(type) {
	case *types.Basic:
		switch {
		case u.Info()&types.IsBoolean != 0:
			return argGen{decl: fmt.Sprintf("%s := %s(nondetBool())", v, ts), make: v}, true
		case u.Info()&types.IsInteger != 0:
			nd := map[types.BasicKind]string{types.Int: "nondetInt()", types.Int8: "nondetInt8()", types.Int16: "nondetInt16()", types.Int32: "nondetInt32()", types.Int64: "nondetInt64()",
				types.Uint: "nondetUint()", types.Uint8: "nondetUint8()", types.Uint16: "nondetUint16()", types.Uint32: "nondetUint32()", types.Uint64: "nondetUint64()", types.Uintptr: "nondetUint64()"}[u.Kind()]
			if nd == "" {
				return ag, false
			}
			d := fmt.Sprintf("%s := %s(%s)", v, ts, nd)
			if c01SmallNames[name] && u.Kind() == types.Int {
				d += fmt.Sprintf("; vassume(%s >= -1); vassume(%s <= 4)", v, v)
			}
			return argGen{decl: d, make: v}, true
		case u.Info()&types.IsString != 0:
			d := fmt.Sprintf("%s := %s(nondetString(vchoose(3))); for _, c := range []byte(%s) { vassume(c < 0x80) }", v, ts, v)
			return argGen{decl: d, make: v}, true
		}
	case *types.Pointer:
		switch e := u.Elem().Underlying().(type) {
		case *types.Basic:
			if e.Kind() != types.Int {
				return ag, false
			}
			d := fmt.Sprintf("%s_nil := nondetBool(); %s_v := nondetInt()", v, v)
			mk := fmt.Sprintf("func() %s { if %s_nil { return nil }; x := new(int); *x = %s_v; return x }()", ts, v, v)
			return argGen{decl: d, make: mk, fresh: true, cmp: func(a, b string) string {
				return fmt.Sprintf("if %s != nil && %s != nil { vassert(*%s == *%s, MSG) }", a, b, a, b)
			}}, true
		case *types.Struct:
			en := types.TypeString(u.Elem(), qual)
			if en == "Pair" {
				d := fmt.Sprintf("%s_nil := nondetBool(); %s_a := nondetInt(); %s_b := nondetInt()", v, v, v)
				mk := fmt.Sprintf("func() *Pair { if %s_nil { return nil }; return &Pair{%s_a, %s_b} }()", v, v, v)
				return argGen{decl: d, make: mk, fresh: true, cmp: func(a, b string) string {
					return fmt.Sprintf("if %s != nil && %s != nil { vassert(*%s == *%s, MSG) }", a, b, a, b)
				}}, true
			}
			if en == "Node" {
				d := fmt.Sprintf("%s_n := vchoose(3); %s_a := nondetInt(); %s_b := nondetInt()", v, v, v)
				mk := fmt.Sprintf("func() *Node { switch %s_n { case 0: return nil; case 1: return &Node{Val: %s_a} }; return &Node{Val: %s_a, Next: &Node{Val: %s_b}} }()", v, v, v, v)
				return argGen{decl: d, make: mk, fresh: true}, true
			}
		}
	case *types.Slice:
		if e, ok := u.Elem().Underlying().(*types.Basic); ok && e.Kind() == types.Int {
			d := fmt.Sprintf("%s_n := vchoose(4); %s_0 := nondetInt(); %s_1 := nondetInt()", v, v, v)
			mk := fmt.Sprintf("func() []int { switch %s_n { case 0: return nil; case 1: return []int{}; case 2: return []int{%s_0} }; return []int{%s_0, %s_1} }()", v, v, v, v)
			return argGen{decl: d, make: mk, fresh: true, cmp: func(a, b string) string {
				return fmt.Sprintf("for i := range %s { vassert(%s[i] == %s[i], MSG) }", a, a, b)
			}}, true
		}
	}
	return ag, false
}

// renameParams returns the tuple with parameters named a0, a1, ...
func renameParams(t *types.Tuple) *types.Tuple {
	var vs []*types.Var
	for i := 0; i < t.Len(); i++ {
		vs = append(vs, types.NewParam(0, nil, fmt.Sprintf("a%d", i), t.At(i).Type()))
	}
	return types.NewTuple(vs...)
}

func c01ResultComparable(t types.Type) bool {
	switch u := t.Underlying().(type) {
	case *types.Basic:
		return u.Info()&(types.IsBoolean|types.IsInteger|types.IsString) != 0
	case *types.Struct:
		for i := 0; i < u.NumFields(); i++ {
			if !c01ResultComparable(u.Field(i).Type()) {
				return false
			}
		}
		return true
	}
	return false
}

// c01Harness writes the body comparing fn with its rendered variants.
func c01Harness(name string, sig *types.Signature, variants []string, pkg *types.Package) (string, bool) {
	var sb strings.Builder
	var ags []argGen
	for i := 0; i < sig.Params().Len(); i++ {
		p := sig.Params().At(i)
		ag, ok := c01Arg(&sb, i, p.Name(), p.Type(), pkg)
		if !ok {
			return "", false
		}
		ags = append(ags, ag)
		sb.WriteString("\t" + ag.decl + "\n")
	}
	nres := sig.Results().Len()
	for i := 0; i < nres; i++ {
		if !c01ResultComparable(sig.Results().At(i).Type()) {
			return "", false
		}
	}
	qual := func(p *types.Package) string {
		if p.Path() == pkg.Path() {
			return ""
		}
		return p.Name()
	}
	// result record
	sb.WriteString("\ttype res struct {\n")
	for i := 0; i < nres; i++ {
		fmt.Fprintf(&sb, "\t\tr%d %s\n", i, types.TypeString(sig.Results().At(i).Type(), qual))
	}
	for i := range ags {
		fmt.Fprintf(&sb, "\t\tx%d %s\n", i, types.TypeString(sig.Params().At(i).Type(), qual))
	}
	sb.WriteString("\t\tpanicked bool\n\t\ttrace []int\n\t}\n")
	// the rendered variants take the variadic parameter as a slice
	plainSig := sig
	if sig.Variadic() {
		plainSig = types.NewSignatureType(nil, nil, nil, sig.Params(), sig.Results(), false)
	}
	fmt.Fprintf(&sb, "\trun := func(f func%s) (r res) {\n", strings.TrimPrefix(types.TypeString(plainSig, qual), "func"))
	sb.WriteString("\t\tTrace = nil\n")
	var args []string
	for i, ag := range ags {
		fmt.Fprintf(&sb, "\t\tr.x%d = %s\n", i, ag.make)
		args = append(args, fmt.Sprintf("r.x%d", i))
	}
	sb.WriteString("\t\tdefer func() {\n\t\t\tif recover() != nil {\n\t\t\t\tr.panicked = true\n\t\t\t}\n\t\t\tr.trace = Trace\n\t\t}()\n")
	var lhs []string
	for i := 0; i < nres; i++ {
		lhs = append(lhs, fmt.Sprintf("r.r%d", i))
	}
	call := fmt.Sprintf("f(%s)", strings.Join(args, ", "))
	if nres > 0 {
		fmt.Fprintf(&sb, "\t\t%s = %s\n", strings.Join(lhs, ", "), call)
	} else {
		fmt.Fprintf(&sb, "\t\t%s\n", call)
	}
	sb.WriteString("\t\treturn\n\t}\n")
	if sig.Variadic() {
		var ps []string
		for i := 0; i < sig.Params().Len(); i++ {
			ps = append(ps, fmt.Sprintf("a%d", i))
		}
		fmt.Fprintf(&sb, "\tref := run(func%s { %s%s(%s...) })\n", strings.TrimPrefix(types.TypeString(types.NewSignatureType(nil, nil, nil, renameParams(sig.Params()), sig.Results(), false), qual), "func"),
			map[bool]string{true: "return ", false: ""}[nres > 0], name, strings.Join(ps, ", "))
	} else {
		fmt.Fprintf(&sb, "\tref := run(%s)\n", name)
	}
	for _, vn := range variants {
		mode := vn[strings.LastIndex(vn, "__")+2:]
		fmt.Fprintf(&sb, "\t{\n\t\tgot := run(%s)\n", vn)
		msg := func(what string) string { return fmt.Sprintf("%q", name+" ["+mode+"]: "+what) }
		fmt.Fprintf(&sb, "\t\tvassert(got.panicked == ref.panicked, %s)\n", msg("panic/no-panic outcome differs from the source function"))
		sb.WriteString("\t\tif !got.panicked && !ref.panicked {\n")
		for i := 0; i < nres; i++ {
			fmt.Fprintf(&sb, "\t\t\tvassert(got.r%d == ref.r%d, %s)\n", i, i, msg(fmt.Sprintf("result %d differs from the source function", i)))
		}
		sb.WriteString("\t\t}\n")
		fmt.Fprintf(&sb, "\t\tvassert(len(got.trace) == len(ref.trace), %s)\n", msg("number of observable calls differs"))
		fmt.Fprintf(&sb, "\t\tif len(got.trace) == len(ref.trace) {\n\t\t\tfor i := range ref.trace {\n\t\t\t\tvassert(got.trace[i] == ref.trace[i], %s)\n\t\t\t}\n\t\t}\n", msg("order or arguments of observable calls differ"))
		for i, ag := range ags {
			if ag.cmp != nil {
				c := ag.cmp(fmt.Sprintf("got.x%d", i), fmt.Sprintf("ref.x%d", i))
				c = strings.ReplaceAll(c, "MSG", msg(fmt.Sprintf("store through argument %d differs", i)))
				fmt.Fprintf(&sb, "\t\t%s\n", c)
			}
		}
		sb.WriteString("\t}\n")
	}
	fmt.Fprintf(&sb, "\tvobserve(%q, ref.panicked)\n", name)
	return sb.String(), true
}

// c01Prepare builds IR natively, renders every eligible function in every
// mode and generates the harness; it returns the overlay files.
func c01Prepare(tier string, chunk int) (files map[string]string, entries []string, stats map[string]int, skipped []string, err error) {
	stats = map[string]int{}
	dir := corpusDir()
	gen := genPrograms(tier)
	overlay := map[string][]byte{filepath.Join(dir, "irc", "zz_gen.go"): []byte(gen)}
	funcs := map[string]*c01Func{}
	var order []string
	var pkgTypes *types.Package
	for _, m := range c01Modes {
		cfg := &packages.Config{Mode: packages.LoadAllSyntax, Dir: dir, Overlay: overlay, Env: os.Environ()}
		pkgs, lerr := packages.Load(cfg, "./irc")
		if lerr != nil {
			return nil, nil, nil, nil, lerr
		}
		if packages.PrintErrors(pkgs) > 0 {
			return nil, nil, nil, nil, fmt.Errorf("corpus does not type-check")
		}
		var ipkg *ir.Package
		func() {
			defer func() {
				if r := recover(); r != nil {
					err = fmt.Errorf("the IR builder panicked in mode %s: %v", m.Name, r)
				}
			}()
			prog, ipkgs := irutil.Packages(pkgs, m.Mode)
			prog.Build()
			ipkg = ipkgs[0]
		}()
		if err != nil {
			return nil, nil, nil, nil, err
		}
		pkgTypes = ipkg.Pkg
		var names []string
		for n, mem := range ipkg.Members {
			if f, ok := mem.(*ir.Function); ok && f.Blocks != nil && f.Signature.Recv() == nil && f.TypeParams().Len() == 0 && n != "init" {
				names = append(names, n)
			}
		}
		sort.Strings(names)
		for _, n := range names {
			fn := ipkg.Members[n].(*ir.Function)
			cf := funcs[n]
			if cf == nil {
				cf = &c01Func{Name: n, Sig: fn.Signature}
				funcs[n] = cf
				order = append(order, n)
			}
			if cf.Skip != "" {
				continue
			}
			vn := n + "__" + m.Name
			text, why := RenderFunction(ipkg.Pkg, fn, vn)
			if why != "" {
				cf.Skip = m.Name + ": " + why
				continue
			}
			cf.Variants = append(cf.Variants, vn)
			cf.Text += text + "\n"
		}
	}
	// helper functions of the corpus itself are not subjects
	notSubject := map[string]bool{"use": true, "useB": true, "esc": true, "esc2": true, "sink": true, "sinkInt": true, "sideT": true, "next": true, "mkShape": true}
	var eligible []*c01Func
	for _, n := range order {
		cf := funcs[n]
		if notSubject[n] || strings.HasPrefix(n, "GGP") {
			// GGP: goto-built shapes without a fuel counter (may not terminate); C02/C14 only
			continue
		}
		if cf.Skip == "" {
			h, ok := c01Harness(n, cf.Sig, cf.Variants, pkgTypes)
			if !ok {
				cf.Skip = "signature outside the harness generator's types"
			} else {
				cf.Harness = h
			}
		}
		if cf.Skip != "" {
			skipped = append(skipped, n+": "+cf.Skip)
			continue
		}
		eligible = append(eligible, cf)
	}
	stats["eligible"] = len(eligible)
	stats["skipped"] = len(skipped)
	var irsb, hsb strings.Builder
	irsb.WriteString("package irc\n\nimport irutf8 \"unicode/utf8\"\n\nvar _ = irutf8.RuneError\n" + irSupport + "\n")
	hsb.WriteString("package irc\n\n")
	for ci := 0; ci*chunk < len(eligible); ci++ {
		lo, hi := ci*chunk, min((ci+1)*chunk, len(eligible))
		ename := fmt.Sprintf("Harness_C01_chunk%03d", ci)
		entries = append(entries, ename)
		fmt.Fprintf(&hsb, "func %s() {\n\tswitch vchoose(%d) {\n", ename, hi-lo)
		for k, cf := range eligible[lo:hi] {
			fmt.Fprintf(&hsb, "\tcase %d:\n\t\tc01_%s()\n", k, cf.Name)
		}
		hsb.WriteString("\t}\n\tvreach(\"end\")\n}\n\n")
	}
	for _, cf := range eligible {
		irsb.WriteString(cf.Text)
		fmt.Fprintf(&hsb, "func c01_%s() {\n%s}\n\n", cf.Name, cf.Harness)
	}
	files = map[string]string{"zz_gen.go": gen, "zz_ir.go": irsb.String(), "zz_c01.go": hsb.String()}
	return files, entries, stats, skipped, nil
}

func init() {
	Registry["C01"] = func() *Spec {
		spec := &Spec{
			ID:    "C01",
			Level: "translation_validation",
			Assumptions: []string{
				"programs: hand-written corpus (/verif/corpus/irc) and bounded-exhaustive generated statement trees; functions whose IR uses constructs the renderer does not cover are counted and skipped",
				"reference semantics of the source function: x/tools go/ssa executed by the same engine; counterexamples are replayed natively with the rendered IR compiled by gc next to the original",
				"each function is validated against its source assuming its callees behave as their source (compositional); parameters named n, m, k, i are loop bounds restricted to -1..4; strings are ASCII of length <= 2; slices have length <= 2",
				"goroutines, channels, select, map iteration, floats, unsafe and cgo are outside the claim",
			},
		}
		spec.Prepare = func(c *Ctx) error {
			files, entries, stats, skipped, err := c01Prepare(c.Tier, 12)
			if err != nil {
				return err
			}
			g := Group{PkgPath: "verifcorpus/irc", PkgDir: "irc", PkgName: "irc", Root: corpusDir(), Gen: files}
			for _, e := range entries {
				g.Entries = append(g.Entries, Entry{Fn: e, Tiers: "both", Reach: []string{"end"},
					Bounds: "12 corpus functions x {naive, lifted, naive+debug, lifted+debug} renderings; symbolic scalars, nil/fresh pointers, slices of length 0-2"})
			}
			spec.Groups = []Group{g}
			c.Extra["programs"] = stats["eligible"]
			c.Extra["functions_skipped"] = skipped
			fmt.Printf("[C01] %d functions eligible, %d skipped\n", stats["eligible"], stats["skipped"])
			return nil
		}
		return spec
	}
}
