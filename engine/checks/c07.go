package checks

import (
	"strings"

	gose "verif/exec"
)

func init() {
	Registry["C07"] = func() *Spec {
		return &Spec{
			ID:    "C07",
			Level: "model_checking",
			Groups: []Group{{
				PkgPath: "honnef.co/go/tools/unused", PkgDir: "unused", PkgName: "unused",
				Files: []string{"safety.go", "../C17/ugen.go", "../C17/source.go"},
				Nop:   []string{"honnef.co/go/tools/unused.trace"},
				Entries: []Entry{
					{Fn: "Harness_C07_exported2", Tiers: "both", Reach: []string{"end"}, Bounds: "23-declaration skeleton (structs with embedding and an embedding diamond, two interfaces with a same-named method, methods, generic function and type, alias, var with initializer, const); both slots of the exported function range over 20 reference forms"},
					{Fn: "Harness_C07_f1_exported", Tiers: "both", Reach: []string{"end"}, Bounds: "same skeleton; the slot of unexported f1 and one slot of the exported function range over 20 reference forms"},
					{Fn: "Harness_C07_three", Tiers: "thorough", Reach: []string{"end"}, Bounds: "same skeleton; the slot of method (*T1).m2 and both slots of the exported function range over 20 reference forms"},
				},
			}},
			FindingKey: func(v gose.Violation) string { return "C07:" + strings.ReplaceAll(v.Msg, " ", "_") },
			Assumptions: []string{
				"programs are the generated skeleton instances only (no imports, no cgo, no build tags, no tests, one package)",
				"deletion removes Result.Unused and Result.Quiet objects at declaration / field-line granularity; objects on a declaration's first line other than the declared object (receivers, parameters, type parameters) are not deleted separately",
				"the type checker (go/types, executed in the engine) is the oracle; 'imported and not used' errors are ignored as the property allows",
			},
		}
	}
}
