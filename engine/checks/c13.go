package checks

func init() {
	Registry["C13"] = func() *Spec {
		return &Spec{
			ID:    "C13",
			Level: "model_checking",
			Groups: []Group{
				{
					PkgPath: "honnef.co/go/tools/analysis/facts/nilness", PkgDir: "analysis/facts/nilness", PkgName: "nilness",
					Files: []string{"nilness_laws.go"},
					Entries: []Entry{
						{Fn: "Harness_C13_nilness_laws", Tiers: "both", Reach: []string{"end"}, Bounds: "all triples of ValueNilness (Inner, Outer in 0..4, symbolic)"},
						{Fn: "Harness_C13_dense_nilness_laws", Tiers: "both", Reach: []string{"end"}, Bounds: "all triples of dense maps of length 0..2 (nil and empty distinguished) over symbolic ValueNilness"},
					},
				},
				{
					PkgPath: "honnef.co/go/tools/analysis/dfa", PkgDir: "analysis/dfa", PkgName: "dfa",
					Files: []string{"map_laws.go"},
					Entries: []Entry{
						{Fn: "Harness_C13_maplattice_laws", Tiers: "both", Reach: []string{"end"}, Bounds: "all triples of maps over keys {0,1} (nil / presence enumerated), values symbolic non-empty 4-bit sets under union"},
						{Fn: "Harness_C13_denselattice_laws", Tiers: "both", Reach: []string{"end"}, Bounds: "all triples of dense maps of length 0..3 over symbolic 4-bit sets under union"},
						{Fn: "Harness_C13_maplattice_laws_inter", Tiers: "both", Reach: []string{"end"}, Bounds: "intersection element lattice (Ident = all ones, not the zero value); all triples of dense maps of length 0..3 over symbolic 4-bit sets under union"},
						{Fn: "Harness_C13_denselattice_laws_inter", Tiers: "both", Reach: []string{"end"}, Bounds: "intersection element lattice (Ident = all ones); all triples of dense maps of length 0..3 over symbolic 4-bit sets under union"},
					},
				},
				{
					PkgPath: "honnef.co/go/tools/analysis/dfa/dense", PkgDir: "analysis/dfa/dense", PkgName: "dense",
					Files: []string{"dense_forward.go"},
					Entries: []Entry{
						{Fn: "Harness_C13_dense_forward_n2", Tiers: "both", Reach: []string{"end"}, Bounds: "all graphs on 2 nodes incl. self-loops; 2-bit facts; symbolic gen/mask per edge, entry facts, pre-fixpoint"},
						{Fn: "Harness_C13_dense_forward_n3_gen", Tiers: "both", Reach: []string{"end"}, Bounds: "all graphs on 3 nodes without self-loops (64 shapes); 1-bit facts; gen-only transfer (symbolic gen per edge), symbolic entry facts on all nodes, symbolic pre-fixpoint"},
						{Fn: "Harness_C13_dense_forward_n3_kill", Tiers: "both", Reach: []string{"end"}, Bounds: "all graphs on 3 nodes without self-loops; 1-bit facts; gen/kill transfer; entry fact on node 0"},
						{Fn: "Harness_C13_dense_forward_n3_self", Tiers: "thorough", Reach: []string{"end"}, Bounds: "all graphs on 3 nodes with self-loops (512 shapes); 1-bit facts; gen-only transfer; entry facts on nodes 0,1"},
					},
				},
				{
					PkgPath: "honnef.co/go/tools/analysis/dfa/sparse", PkgDir: "analysis/dfa/sparse", PkgName: "sparse",
					Files: []string{"sparse_forward.go"},
					Entries: []Entry{
						{Fn: "Harness_C13_sparse_forward_k2", Tiers: "both", Reach: []string{"end"}, Bounds: "2 parameters with symbolic states + 2 instructions (binary operation or phi, operands/edges enumerated, cycles through phis), all rotations/reversals of the instruction order; 2-bit facts; symbolic gen/mask coefficients; symbolic pre-fixpoint"},
						{Fn: "Harness_C13_sparse_forward_k3", Tiers: "thorough", Reach: []string{"end"}, Bounds: "as k2 with 3 instructions"},
					},
				},
			},
			Assumptions: []string{
				"MapLattice stores no Ident values (documented invariant)",
				"transfer functions are monotone (gen/kill form); graphs up to the stated size",
			},
		}
	}
}
