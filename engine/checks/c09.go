package checks

import (
	"sort"
	"fmt"
	"reflect"
	"strings"
	"unsafe"

	"honnef.co/go/tools/pattern"
)

// c09Patterns: name@pattern shorthand spellings; the explicit spelling is
// derived textually for the interchangeability law.
var c09Patterns = []string{
	`(BinaryExpr a@(Ident _) _ (Or (CallExpr b@(Ident _) [(BasicLit _ _)]) (CallExpr _ _)))`,
	`(BinaryExpr (Or (BinaryExpr c@(Ident _) "+" (BasicLit "INT" "1")) d) op e)`,
	`(BinaryExpr x@(Ident _) "+" (Or (BinaryExpr x "*" (BasicLit "INT" "2")) rest))`,
	`(CallExpr f@(Ident _) [x x])`,
	`(BinaryExpr (Not (BinaryExpr c@(Ident _) _ (BasicLit _ _))) _ r)`,
	`(Or (BinaryExpr (Or x@(Ident _) y@(BasicLit _ _)) "+" (BasicLit "INT" "1")) rest)`,
	`(UnaryExpr "-" (Or (CallExpr g args) lit@(BasicLit _ _)))`,
	`(CallExpr f@(Ident _) [(Or (CallExpr _ [_ f (BasicLit "INT" "1")]) rest)])`,
	`(BinaryExpr l op@(Or "+" "*") (Or (Not (BasicLit _ _)) v@(BasicLit _ "1")))`,
	`(Or (CallExpr f [a]) (CallExpr f [a b]) other)`,
	`(SliceExpr _ x x _)`,
	`(SliceExpr s lo (Or lo hi@(Ident _)) _)`,
	`(BinaryExpr x "+" (CallExpr _ x))`,
	`(BinaryExpr (CallExpr _ x) _ x)`,
	`(CallExpr f x:x:[])`,
}

// c09Many builds a pattern with n leading names so that the interesting
// binding gets index n (bindings beyond 32 are in the property's range).
func c09Many(n int) string {
	var sb strings.Builder
	sb.WriteString("(Or ")
	// first alternative binds n+1 names and then fails on the literal; the second binds one name
	sb.WriteString("(BinaryExpr ")
	for i := 0; i < n; i++ {
		fmt.Fprintf(&sb, "(Or n%d@(Ident _) ", i)
	}
	sb.WriteString("(Ident _)")
	for i := 0; i < n; i++ {
		sb.WriteString(")")
	}
	sb.WriteString(` "+" (BinaryExpr late@(Ident _) "*" (BasicLit "INT" "1")))`)
	sb.WriteString(" other)")
	return sb.String()
}

func explicitSpelling(s string) string {
	// x@(...) -> (Binding "x" (...)); a bare lower-case name x -> (Binding "x" nil)
	isIdent := func(c byte) bool {
		return c == '_' || c >= 'a' && c <= 'z' || c >= 'A' && c <= 'Z' || c >= '0' && c <= '9'
	}
	var out strings.Builder
	i := 0
	for i < len(s) {
		c := s[i]
		if c == '"' {
			j := i + 1
			for j < len(s) && s[j] != '"' {
				j++
			}
			out.WriteString(s[i : j+1])
			i = j + 1
			continue
		}
		if !isIdent(c) {
			out.WriteByte(c)
			i++
			continue
		}
		j := i
		for j < len(s) && isIdent(s[j]) {
			j++
		}
		word := s[i:j]
		lower := word[0] >= 'a' && word[0] <= 'z' && word != "nil"
		if !lower {
			out.WriteString(word)
			i = j
			continue
		}
		if j < len(s) && s[j] == '@' {
			k := j + 1
			depth := 0
			for ; k < len(s); k++ {
				if s[k] == '(' || s[k] == '[' {
					depth++
				} else if s[k] == ')' || s[k] == ']' {
					depth--
					if depth == 0 {
						k++
						break
					}
				}
			}
			fmt.Fprintf(&out, "(Binding %q %s)", word, explicitSpelling(s[j+1:k]))
			i = k
			continue
		}
		fmt.Fprintf(&out, "(Binding %q nil)", word)
		i = j
	}
	return out.String()
}

// renderNode prints a parsed pattern node as a Go expression (package pattern).
func renderNode(n pattern.Node) string { return renderNodeQ(n, "", "c09B") }

// renderNodeQ prints a pattern node as a Go expression; q qualifies the
// pattern package's identifiers ("" inside package pattern, "pattern."
// elsewhere) and bfn names the helper that builds Binding values (their
// index is unexported).
func renderNodeQ(n pattern.Node, q, bfn string) string {
	if n == nil {
		return "nil"
	}
	v := reflect.ValueOf(n)
	t := v.Type()
	switch x := n.(type) {
	case pattern.String:
		return fmt.Sprintf("%sString(%q)", q, string(x))
	case pattern.Token:
		return fmt.Sprintf("%sToken(%d)", q, int(x))
	case pattern.IndexSymbol:
		return fmt.Sprintf("%sIndexSymbol{Path: %q, Type: %q, Ident: %q}", q, x.Path, x.Type, x.Ident)
	case pattern.Binding:
		// read the unexported index
		p := reflect.New(t).Elem()
		p.Set(v)
		idx := *(*int)(unsafe.Pointer(p.FieldByName("idx").UnsafeAddr()))
		return fmt.Sprintf("%s(%q, %d, %s)", bfn, x.Name, idx, renderNodeQ(x.Node, q, bfn))
	case pattern.Or:
		var parts []string
		for _, c := range x.Nodes {
			parts = append(parts, renderNodeQ(c, q, bfn))
		}
		return q + "Or{Nodes: []" + q + "Node{" + strings.Join(parts, ", ") + "}}"
	case pattern.And:
		var parts []string
		for _, c := range x.Nodes {
			parts = append(parts, renderNodeQ(c, q, bfn))
		}
		return q + "And{Nodes: []" + q + "Node{" + strings.Join(parts, ", ") + "}}"
	}
	if t.Kind() != reflect.Struct {
		panic(fmt.Sprintf("renderNode: %T", n))
	}
	var parts []string
	for i := 0; i < t.NumField(); i++ {
		if !t.Field(i).IsExported() {
			panic(fmt.Sprintf("renderNode: unexported field in %T", n))
		}
		fv := v.Field(i)
		if fv.IsNil() {
			continue
		}
		parts = append(parts, fmt.Sprintf("%s: %s", t.Field(i).Name, renderNodeQ(fv.Interface().(pattern.Node), q, bfn)))
	}
	return q + t.Name() + "{" + strings.Join(parts, ", ") + "}"
}

// renderFullPattern prints a parsed Pattern with all the fields the
// pre-filter reads (entry nodes, symbols pattern, root call symbols), for a
// package other than pattern.
func renderFullPattern(p pattern.Pattern, bfn string) string {
	var names, kinds, roots []string
	for _, b := range p.Bindings {
		names = append(names, fmt.Sprintf("%q", b))
	}
	for _, n := range p.EntryNodes {
		kinds = append(kinds, fmt.Sprintf("(%s)(nil)", reflect.TypeOf(n).String()))
	}
	sort.Strings(kinds)
	for _, r := range p.RootCallSymbols {
		roots = append(roots, renderNodeQ(r, "pattern.", bfn))
	}
	rootSyms := "nil"
	if p.RootCallSymbols != nil {
		rootSyms = "[]pattern.IndexSymbol{" + strings.Join(roots, ", ") + "}"
	}
	return fmt.Sprintf("pattern.Pattern{\n\t\tRoot: %s,\n\t\tBindings: []string{%s},\n\t\tEntryNodes: []ast.Node{%s},\n\t\tSymbolsPattern: %s,\n\t\tRootCallSymbols: %s,\n\t}",
		renderNodeQ(p.Root, "pattern.", bfn), strings.Join(names, ", "), strings.Join(kinds, ", "), renderNodeQ(p.SymbolsPattern, "pattern.", bfn), rootSyms)
}

func renderPattern(p pattern.Pattern) string {
	var names []string
	for _, b := range p.Bindings {
		names = append(names, fmt.Sprintf("%q", b))
	}
	return fmt.Sprintf("Pattern{Root: %s, Bindings: []string{%s}}", renderNode(p.Root), strings.Join(names, ", "))
}

// patterns over typed trees (Builtin, Object). Object is only given literal
// names or _: the real Object.Match evaluates its name pattern twice and a
// name bound to a string never recalls successfully, so (Object x) fails
// where one might expect a match — a spurious failure, which the property
// (about bindings after a successful match) does not cover.
// the `_ = len` statement makes
// "len" a used value, shadow() rebinds it
var c09TypedPatterns = []string{
	`(CallExpr (Or (Builtin fn) (Ident other)) args)`,
	`(CallExpr (Builtin "len") [arg])`,
	`(CallExpr (Or (Builtin (Or "cap" name)) rest) [(Or (CallExpr (Builtin inner) _) x)])`,
	`(CallExpr (Not (Builtin b)) [a])`,
	`(CallExpr (Or (Object "helper") (Builtin o)) _)`,
	`(CallExpr f@(Object _) [(Or (Builtin f) y)])`,
}

func c09Prepare(c *Ctx) (map[string]string, []Entry, error) {
	pats := append([]string{}, c09Patterns...)
	pats = append(pats, c09Many(2), c09Many(33))
	if c.Tier == "thorough" {
		pats = append(pats, c09Many(31), c09Many(32), c09Many(62))
	}
	var sb strings.Builder
	sb.WriteString("package pattern\n\n")
	var entries []Entry
	for i, s := range pats {
		var parser pattern.Parser
		p, err := parser.Parse(s)
		if err != nil {
			return nil, nil, fmt.Errorf("pattern %d does not parse: %v\n%s", i, err, s)
		}
		es := explicitSpelling(s)
		q, err := parser.Parse(es)
		if err != nil {
			return nil, nil, fmt.Errorf("explicit spelling of pattern %d does not parse: %v\n%s", i, err, es)
		}
		short := s
		if len(short) > 90 {
			short = short[:90] + "…"
		}
		fmt.Fprintf(&sb, "// %s\nfunc c09Pat%d() Pattern {\n\treturn %s\n}\n\n", s, i, renderPattern(p))
		fmt.Fprintf(&sb, "// %s\nfunc c09PatExplicit%d() Pattern {\n\treturn %s\n}\n\n", es, i, renderPattern(q))
		fmt.Fprintf(&sb, "func Harness_C09_match_p%d() {\n\tc09Check(%q, c09Pat%d(), c09Tree(vchoose(c09NTrees)))\n\tvreach(\"end\")\n}\n\n", i, fmt.Sprintf("pattern %d", i), i)
		fmt.Fprintf(&sb, "func Harness_C09_spelling_p%d() {\n\tc09Same(%q, c09Pat%d(), c09PatExplicit%d(), c09Tree(vchoose(c09NTrees)))\n\tvreach(\"end\")\n}\n\n", i, fmt.Sprintf("pattern %d", i), i, i)
		b := "pattern: " + short + " ; 19 syntax-tree shapes (binary/unary/call/paren over identifiers and INT literals) with symbolic identifier names {a,b}, literal values {1,2} and operators {+,*}"
		entries = append(entries,
			Entry{Fn: fmt.Sprintf("Harness_C09_match_p%d", i), Tiers: "both", Reach: []string{"end"}, Bounds: b},
			Entry{Fn: fmt.Sprintf("Harness_C09_spelling_p%d", i), Tiers: "both", Reach: []string{"end"}, Bounds: b})
	}
	for i, ps := range c09TypedPatterns {
		var parser pattern.Parser
		parser.AllowTypeInfo = true
		p, err := parser.Parse(ps)
		if err != nil {
			return nil, nil, fmt.Errorf("typed pattern %d does not parse: %v\n%s", i, err, ps)
		}
		fmt.Fprintf(&sb, "// %s\nfunc c09TypedPat%d() Pattern {\n\treturn %s\n}\n\n", ps, i, renderPattern(p))
		fmt.Fprintf(&sb, "func Harness_C09_typed_p%d() {\n\tc09TypedCheck(%q, c09TypedPat%d())\n\tvreach(\"end\")\n}\n\n", i, fmt.Sprintf("typed pattern %d", i), i)
		entries = append(entries, Entry{Fn: fmt.Sprintf("Harness_C09_typed_p%d", i), Tiers: "both", Reach: []string{"end"},
			Bounds: "pattern: " + ps + " ; the 7 call expressions of a small package (builtin calls, shadowed builtin, function, function-typed variable, nested) parsed and type-checked by the real go/parser and go/types inside the engine"})
	}
	return map[string]string{"zz_c09_gen.go": sb.String()}, entries, nil
}

func init() {
	Registry["C09"] = func() *Spec {
		spec := &Spec{
			ID:    "C09",
			Level: "model_checking",
			Assumptions: []string{
				"patterns: 14 (thorough 17) patterns nesting Or, Not, List and Binding, with repeated names and up to 64 names, in both spellings; parsed by the real parser natively on every run and rebuilt as Go values including the unexported binding index",
				"syntax trees: 19 expression shapes (incl. slice expressions with absent bounds) with symbolic leaves; of the nodes that need type information, Builtin and Object are covered on 7 typed call expressions; Symbol is exercised under C08; IntegerLiteral and TrulyConstantExpression are outside",
				"package reflect is modelled by the engine (reading operations only)",
			},
		}
		spec.Prepare = func(c *Ctx) error {
			files, entries, err := c09Prepare(c)
			if err != nil {
				return err
			}
			spec.Groups = []Group{{PkgPath: "honnef.co/go/tools/pattern", PkgDir: "pattern", PkgName: "pattern", Files: []string{"ref.go"}, Gen: files, Entries: entries,
				// the package initialiser parses one internal pattern (used by IntegerLiteral, outside the claim)
				Nop: []string{"honnef.co/go/tools/pattern.MustParse"}}}
			return nil
		}
		return spec
	}
}
