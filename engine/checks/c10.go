package checks

func init() {
	Registry["C10"] = func() *Spec {
		return &Spec{
			ID:    "C10",
			Level: "model_checking",
			Groups: []Group{{
				PkgPath: "honnef.co/go/tools/lintcmd", PkgDir: "lintcmd", PkgName: "lintcmd",
				Files: []string{"ignore.go", "placement.go"},
				Entries: []Entry{
					{Fn: "Harness_C10_single", Tiers: "both", Reach: []string{"end"}, Bounds: "1 problem (2 files x 2 lines x 3 checks) x 1 directive (ignore|file-ignore, 2 lines, 70 check lists of 1-2 names incl. globs with *, ? and [...], wrong case, U1000, disabled and unknown checks; reason absent / present / preceded by an empty field); SA1000 and ST1000 enabled or disabled"},
					{Fn: "Harness_C10_placement", Tiers: "both", Reach: []string{"end"}, Bounds: "11 placements of a //lint:ignore comment (above / at the end of a statement, inside longer comment blocks, doc comment, declaration block, above an if) x the problem on every line of the file; parsed by the real go/parser, attached by ast.NewCommentMap via lint.ParseDirectives, serialized by the runner"},
					{Fn: "Harness_C10_pair", Tiers: "both", Reach: []string{"end"}, Bounds: "2 problems (same or different line, same or different check) x 1-2 directives in either order (6 lists, reason absent/present)"},
				},
			}, {
				PkgPath: "honnef.co/go/tools/unused", PkgDir: "unused", PkgName: "unused",
				Files: []string{"u1000.go", "../C17/ugen.go", "../C17/source.go"},
				Nop:   []string{"honnef.co/go/tools/unused.trace"},
				Entries: []Entry{
					{Fn: "Harness_C10_u1000_ignore", Tiers: "both", Reach: []string{"end"}, Bounds: "23-declaration skeleton; //lint:ignore U1000 above one of 5 declarations (3 functions, var, const) x 20 reference forms inside f1; compared with the same package in which the exported function refers to the object instead"},
				},
			}},
			Assumptions: []string{
				"attachment of comments to syntax nodes is covered for the 11 placements of Harness_C10_placement only; //line-remapped positions are outside the claim; U1000's own handling of ignores is covered for functions, variables and constants of the generated skeleton (types, whose fields and methods are used as well, are not)",
				"a whitespace-only reason (trailing space) is outside the claim (the property does not say whether it counts as a reason)",
				"the useless-directive clause is asserted only for lists of exact names (whether a glob 'names' an enabled check is not specified)",
			},
		}
	}
}
