package checks

// Well-formedness of the IR that honnef.co/go/tools/go/ir builds (C02) and
// exactness of its dominance queries on real CFGs (C14b). The IR is built
// natively by the code under test; the deciding steps are SMT queries:
//   - dominance: for every ordered pair of blocks, "is there a path from the
//     region root to b that avoids a" as a bounded path-existence query;
//   - def-dominates-use: looked up in that solver-decided relation;
//   - typing: every instruction becomes an application of a typed
//     uninterpreted function over sorts that stand for Go types; an ill-typed
//     operand makes the script ill-sorted and the solver reports the
//     equation.
// The structural clauses (terminators, phi arity, pred/succ and
// operand/referrer inverses) are preconditions of that encoding and are
// checked while building it.

import (
	"fmt"
	"go/token"
	"go/types"
	"os"
	"sort"
	"strings"
	"time"

	"golang.org/x/tools/go/packages"

	"honnef.co/go/tools/go/ir"
	"honnef.co/go/tools/go/ir/irutil"

	"verif/smt"
	"verif/sym"
)

type irModeSpec struct {
	Name string
	Mode ir.BuilderMode
}

var irModes = []irModeSpec{
	{"lifted", ir.InstantiateGenerics | ir.BuildSerially},
	{"naive", ir.NaiveForm | ir.InstantiateGenerics | ir.BuildSerially},
	{"lifted+debug", ir.GlobalDebug | ir.InstantiateGenerics | ir.BuildSerially},
	{"naive+debug", ir.NaiveForm | ir.GlobalDebug | ir.InstantiateGenerics | ir.BuildSerially},
	{"lifted+generic", ir.BuildSerially},
}

type irFinding struct {
	Kind, Fn, Mode, Detail string
}

func (f irFinding) Key() string {
	return f.Kind + ":" + f.Fn
}

// loadIRFuncs builds IR for the given packages and returns every function
// with a body (package-level functions, methods, anonymous functions).
func loadIRFuncs(dir string, overlay map[string][]byte, patterns []string, mode ir.BuilderMode) (fns []*ir.Function, err error) {
	defer func() {
		if r := recover(); r != nil {
			err = fmt.Errorf("the IR builder panicked: %v", r)
		}
	}()
	cfg := &packages.Config{Mode: packages.LoadAllSyntax, Dir: dir, Overlay: overlay, Env: os.Environ()}
	pkgs, err := packages.Load(cfg, patterns...)
	if err != nil {
		return nil, err
	}
	var errs []string
	for _, p := range pkgs {
		for _, e := range p.Errors {
			errs = append(errs, e.Error())
		}
	}
	if len(errs) > 0 {
		return nil, fmt.Errorf("load errors: %s", strings.Join(errs, "; "))
	}
	prog, ipkgs := irutil.Packages(pkgs, mode)
	prog.Build()
	seen := map[*ir.Function]bool{}
	var out []*ir.Function
	var add func(fn *ir.Function)
	add = func(fn *ir.Function) {
		if fn == nil || seen[fn] {
			return
		}
		seen[fn] = true
		if fn.Blocks != nil {
			out = append(out, fn)
		}
		for _, a := range fn.AnonFuncs {
			add(a)
		}
	}
	for _, p := range ipkgs {
		if p == nil {
			continue
		}
		var names []string
		for n := range p.Members {
			names = append(names, n)
		}
		sort.Strings(names)
		for _, n := range names {
			switch m := p.Members[n].(type) {
			case *ir.Function:
				add(m)
			case *ir.Type:
				for _, T := range []types.Type{m.Type(), types.NewPointer(m.Type())} {
					ms := prog.MethodSets.MethodSet(T)
					for i := 0; i < ms.Len(); i++ {
						add(prog.MethodValue(ms.At(i)))
					}
				}
			}
		}
	}
	return out, nil
}

// ---- dominance decided by the solver ----

type domResult struct {
	dom     [][]bool // dom[a][b]: a dominates b (reflexive), solver-decided
	root    []int    // region root of each block (0 or recover index), -1 unreachable
	queries int
}

// solverDominance decides, with bounded path-existence queries, which
// blocks dominate which.
func solverDominance(sol *smt.Solver, fn *ir.Function) *domResult {
	n := len(fn.Blocks)
	res := &domResult{dom: make([][]bool, n), root: make([]int, n)}
	w := 8
	if n > 250 {
		w = 16
	}
	bv := func(i int) *sym.Term { return sym.BV(uint64(i), w) }
	ss := sol.Begin()
	defer ss.End()
	p := make([]*sym.Term, n)
	for k := range p {
		p[k] = sym.Var(fmt.Sprintf("p%d", k), w)
		ss.Declare(p[k])
	}
	step := func(x, y *sym.Term) *sym.Term {
		c := sym.Eq(x, y)
		for _, b := range fn.Blocks {
			for _, s := range b.Succs {
				c = sym.Or(c, sym.And(sym.Eq(x, bv(b.Index)), sym.Eq(y, bv(s.Index))))
			}
		}
		return c
	}
	for k := 0; k+1 < n; k++ {
		ss.Assert(step(p[k], p[k+1]))
	}
	// path query: from root to target avoiding `avoid` (-1: nothing)
	path := func(root, target, avoid int) bool {
		c := sym.And(sym.Eq(p[0], bv(root)), sym.Eq(p[n-1], bv(target)))
		if avoid >= 0 {
			for k := range p {
				c = sym.And(c, sym.Not(sym.Eq(p[k], bv(avoid))))
			}
		}
		res.queries++
		r := ss.Check(c)
		if r == smt.Unknown {
			panic("dominance query returned unknown")
		}
		return r == smt.Sat
	}
	rec := -1
	if fn.Recover != nil {
		rec = fn.Recover.Index
	}
	for b := 0; b < n; b++ {
		switch {
		case path(0, b, -1):
			res.root[b] = 0
		case rec >= 0 && path(rec, b, -1):
			res.root[b] = rec
		default:
			res.root[b] = -1
		}
	}
	for a := 0; a < n; a++ {
		res.dom[a] = make([]bool, n)
		for b := 0; b < n; b++ {
			switch {
			case a == b:
				res.dom[a][b] = true
			case res.root[b] < 0 || res.root[a] != res.root[b]:
				res.dom[a][b] = false
			case a == res.root[b]:
				res.dom[a][b] = true
			default:
				res.dom[a][b] = !path(res.root[b], b, a)
			}
		}
	}
	return res
}

// ---- structure, def-use dominance, typing ----

type irChecker struct {
	pending  []*typingScript
	findings []irFinding
	mode     string
	fset     *token.FileSet
	typQ     int
}

func (c *irChecker) add(kind string, fn *ir.Function, format string, args ...any) {
	c.findings = append(c.findings, irFinding{Kind: kind, Fn: fn.String(), Mode: c.mode, Detail: fmt.Sprintf(format, args...)})
}

func isTerminator(i ir.Instruction) bool {
	switch i.(type) {
	case *ir.If, *ir.Jump, *ir.Return, *ir.Panic, *ir.Unreachable, *ir.ConstantSwitch:
		return true
	}
	return false
}

func (c *irChecker) structure(fn *ir.Function) bool {
	ok := true
	bad := func(format string, args ...any) {
		ok = false
		c.add("structure", fn, format, args...)
	}
	inFn := map[ir.Instruction]*ir.BasicBlock{}
	for i, b := range fn.Blocks {
		if b.Index != i {
			bad("block %d has Index %d", i, b.Index)
		}
		if b.Parent() != fn {
			bad("block %d has wrong parent", i)
		}
		if len(b.Instrs) == 0 {
			bad("block %d is empty", i)
			continue
		}
		for j, ins := range b.Instrs {
			if ins == nil {
				bad("block %d has a nil instruction at %d", i, j)
				continue
			}
			inFn[ins] = b
			if ins.Block() != b {
				bad("instruction %s in block %d claims block %v", ins, i, ins.Block())
			}
			if isTerminator(ins) != (j == len(b.Instrs)-1) {
				bad("block %d: terminator placement violated at instruction %d (%T)", i, j, ins)
			}
		}
		// phis (and sigmas) lead the block
		lead := true
		for _, ins := range b.Instrs {
			switch ins := ins.(type) {
			case *ir.Phi:
				if !lead {
					bad("block %d: phi %s after a non-phi instruction", i, ins.Name())
				}
				if len(ins.Edges) != len(b.Preds) {
					bad("block %d: phi %s has %d edges for %d predecessors", i, ins.Name(), len(ins.Edges), len(b.Preds))
				}
			default:
				lead = false
			}
		}
		want := -1
		switch t := b.Instrs[len(b.Instrs)-1].(type) {
		case *ir.Jump:
			want = 1
		case *ir.If:
			want = 2
		case *ir.Return, *ir.Panic, *ir.Unreachable:
			want = 0
		case *ir.ConstantSwitch:
			want = len(t.Conds)
		}
		if want >= 0 && len(b.Succs) != want {
			bad("block %d: terminator %T with %d successors", i, b.Instrs[len(b.Instrs)-1], len(b.Succs))
		}
	}
	count := func(list []*ir.BasicBlock, x *ir.BasicBlock) int {
		n := 0
		for _, y := range list {
			if y == x {
				n++
			}
		}
		return n
	}
	for _, b := range fn.Blocks {
		for _, s := range b.Succs {
			if count(b.Succs, s) != count(s.Preds, b) {
				bad("edge %d->%d: successor and predecessor lists disagree", b.Index, s.Index)
			}
		}
		for _, p := range b.Preds {
			if count(b.Preds, p) != count(p.Succs, b) {
				bad("edge %d->%d: predecessor and successor lists disagree", p.Index, b.Index)
			}
		}
	}
	// operands <-> referrers
	var rands [16]*ir.Value
	uses := map[ir.Value]map[ir.Instruction]int{}
	for _, b := range fn.Blocks {
		for _, ins := range b.Instrs {
			for _, op := range ins.Operands(rands[:0]) {
				if *op == nil {
					continue
				}
				v := *op
				if vi, ok := v.(ir.Instruction); ok {
					if vb := inFn[vi]; vb == nil {
						// an instruction that was removed from its block has no block any more
						if vi.Block() == nil || vi.Parent() == fn {
							bad("%s (block %d) uses %s, which is not an instruction of the function any more", ins, b.Index, v.Name())
						}
					}
				}
				if uses[v] == nil {
					uses[v] = map[ir.Instruction]int{}
				}
				uses[v][ins]++
			}
		}
	}
	for v, m := range uses {
		refs := v.Referrers()
		if refs == nil {
			continue
		}
		if vi, ok := v.(ir.Instruction); ok && (vi.Block() == nil || vi.Parent() != fn) {
			continue // removed instructions were reported above
		}
		if _, ok := v.(*ir.FreeVar); ok {
			continue
		}
		got := map[ir.Instruction]int{}
		for _, r := range *refs {
			got[r]++
		}
		for ins := range m {
			if got[ins] == 0 {
				bad("%s uses %s but is missing from its referrers", ins, v.Name())
			}
		}
	}
	for _, b := range fn.Blocks {
		for _, ins := range b.Instrs {
			v, ok := ins.(ir.Value)
			if !ok || v.Referrers() == nil {
				continue
			}
			for _, r := range *v.Referrers() {
				if r == nil {
					continue
				}
				if r.Block() == nil {
					bad("%s lists referrer %s, which has been removed from its block", v.Name(), r)
					continue
				}
				if r.Parent() == fn && inFn[r] == nil {
					bad("%s lists referrer %s, which is not an instruction of the function", v.Name(), r)
					continue
				}
				if r.Parent() == fn && uses[v][r] == 0 {
					bad("%s lists referrer %s, which does not use it", v.Name(), r)
				}
			}
		}
	}
	return ok
}

func (c *irChecker) defUse(fn *ir.Function, d *domResult) {
	pos := map[ir.Instruction]int{}
	for _, b := range fn.Blocks {
		for j, ins := range b.Instrs {
			pos[ins] = j
		}
	}
	rec := -1
	if fn.Recover != nil {
		rec = fn.Recover.Index
	}
	var rands [16]*ir.Value
	for _, b := range fn.Blocks {
		if d.root[b.Index] < 0 {
			continue
		}
		for _, ins := range b.Instrs {
			check := func(v ir.Value, useBlock *ir.BasicBlock, atEnd bool, what string) {
				def, ok := v.(ir.Instruction)
				if !ok || def.Parent() != fn || def.Block() == nil {
					return
				}
				db := def.Block()
				if db == useBlock {
					if !atEnd && pos[def] >= pos[ins] {
						if _, isPhi := ins.(*ir.Phi); !isPhi {
							c.add("dominance", fn, "%s (block %d) uses %s before its definition in the same block", ins, b.Index, v.Name())
						}
					}
					return
				}
				if d.root[useBlock.Index] < 0 {
					return
				}
				if d.dom[db.Index][useBlock.Index] {
					return
				}
				// named results: entry-block definitions are available in the region
				// reached only through the recover block
				if rec >= 0 && d.root[useBlock.Index] == rec && db.Index == 0 {
					return
				}
				c.add("dominance", fn, "%s in block %d: %s %s is defined in block %d, which does not dominate block %d", ins, b.Index, what, v.Name(), db.Index, useBlock.Index)
			}
			if phi, ok := ins.(*ir.Phi); ok {
				for k, e := range phi.Edges {
					if e == nil || k >= len(b.Preds) {
						continue
					}
					check(e, b.Preds[k], true, fmt.Sprintf("phi edge %d", k))
				}
				continue
			}
			for _, op := range ins.Operands(rands[:0]) {
				if *op != nil {
					check(*op, b, false, "operand")
				}
			}
		}
	}
}

// typing builds the sorted encoding of the function and lets the solver's
// sort checker decide it.
func (c *irChecker) typing(fn *ir.Function) {
	type sortEnt struct {
		t types.Type
		s string
	}
	var sorts []sortEnt
	std := func(t types.Type) bool {
		switch t.(type) {
		case *types.Basic, *types.Named, *types.Alias, *types.Pointer, *types.Slice, *types.Array, *types.Map, *types.Chan,
			*types.Struct, *types.Interface, *types.Signature, *types.Tuple, *types.TypeParam, *types.Union:
			return true
		}
		return false
	}
	nsort := 0
	var decl strings.Builder
	sortOf := func(t types.Type) string {
		if t == nil {
			return "Tnil"
		}
		for _, e := range sorts {
			if e.t == t || (std(e.t) && std(t) && safeIdentical(e.t, t)) {
				return e.s
			}
		}
		nsort++
		s := fmt.Sprintf("T%d", nsort)
		sorts = append(sorts, sortEnt{t, s})
		fmt.Fprintf(&decl, "(declare-sort %s 0) ; %s\n", s, strings.ReplaceAll(t.String(), "\n", " "))
		return s
	}
	decl.WriteString("(declare-sort Tnil 0)\n")
	hasTP := func(t types.Type) bool {
		found := false
		var walk func(t types.Type, depth int)
		walk = func(t types.Type, depth int) {
			if t == nil || found || depth > 6 {
				return
			}
			switch t := t.(type) {
			case *types.TypeParam:
				found = true
			case *types.Pointer:
				walk(t.Elem(), depth+1)
			case *types.Slice:
				walk(t.Elem(), depth+1)
			case *types.Array:
				walk(t.Elem(), depth+1)
			case *types.Map:
				walk(t.Key(), depth+1)
				walk(t.Elem(), depth+1)
			case *types.Chan:
				walk(t.Elem(), depth+1)
			case *types.Named:
				ta := t.TypeArgs()
				for i := 0; i < ta.Len(); i++ {
					walk(ta.At(i), depth+1)
				}
			case *types.Tuple:
				for i := 0; i < t.Len(); i++ {
					walk(t.At(i).Type(), depth+1)
				}
			}
		}
		walk(t, 0)
		return found
	}
	var body strings.Builder
	names := map[ir.Value]string{}
	nval := 0
	var valDecl strings.Builder
	val := func(v ir.Value) string {
		if n, ok := names[v]; ok {
			return n
		}
		nval++
		n := fmt.Sprintf("v%d", nval)
		names[v] = n
		fmt.Fprintf(&valDecl, "(declare-const %s %s)\n", n, sortOf(v.Type()))
		return n
	}
	nfun := 0
	type eqn struct{ text, what string }
	var eqns []eqn
	// rule: the operands must have exactly the sorts wanted
	rule := func(ins ir.Instruction, what string, operands []ir.Value, wanted []types.Type) {
		for i := range operands {
			if operands[i] == nil || wanted[i] == nil {
				return
			}
			if hasTP(operands[i].Type()) || hasTP(wanted[i]) {
				return
			}
		}
		nfun++
		f := fmt.Sprintf("f%d", nfun)
		var sorts, args []string
		for i := range operands {
			sorts = append(sorts, sortOf(wanted[i]))
			args = append(args, val(operands[i]))
		}
		fmt.Fprintf(&body, "(declare-fun %s (%s) Bool)\n", f, strings.Join(sorts, " "))
		eqns = append(eqns, eqn{fmt.Sprintf("(assert (%s %s))", f, strings.Join(args, " ")), fmt.Sprintf("%s: %s [%s]", what, ins, c.posOf(ins))})
	}
	deref := func(t types.Type) types.Type {
		if p, ok := t.Underlying().(*types.Pointer); ok {
			return p.Elem()
		}
		return nil
	}
	for _, b := range fn.Blocks {
		for _, ins := range b.Instrs {
			switch ins := ins.(type) {
			case *ir.BinOp:
				switch ins.Op {
				case token.SHL, token.SHR:
					rule(ins, "shift result has the type of its left operand", []ir.Value{ins.X}, []types.Type{ins.Type()})
				case token.EQL, token.NEQ, token.LSS, token.LEQ, token.GTR, token.GEQ:
					xt, yt := ins.X.Type(), ins.Y.Type()
					if !types.Identical(xt, yt) && (types.AssignableTo(xt, yt) || types.AssignableTo(yt, xt)) {
						break // comparison operands may be mutually assignable (documented relaxation)
					}
					rule(ins, "comparison operands have the same type", []ir.Value{ins.X, ins.Y}, []types.Type{xt, xt})
				default:
					rule(ins, "arithmetic operands and result have the same type", []ir.Value{ins.X, ins.Y}, []types.Type{ins.Type(), ins.Type()})
				}
			case *ir.UnOp:
				rule(ins, "unary operand has the result type", []ir.Value{ins.X}, []types.Type{ins.Type()})
			case *ir.Store:
				if e := deref(ins.Addr.Type()); e != nil {
					rule(ins, "stored value has the pointer's element type", []ir.Value{ins.Val}, []types.Type{e})
				} else {
					c.add("typing", fn, "store through non-pointer %s: %s", ins.Addr.Type(), ins)
				}
			case *ir.Load:
				if e := deref(ins.X.Type()); e != nil {
					rule(ins, "load result has the pointer's element type", []ir.Value{ins}, []types.Type{e})
				} else {
					c.add("typing", fn, "load through non-pointer %s: %s", ins.X.Type(), ins)
				}
			case *ir.Phi:
				var ops []ir.Value
				var ws []types.Type
				for _, e := range ins.Edges {
					if e != nil {
						ops = append(ops, e)
						ws = append(ws, ins.Type())
					}
				}
				rule(ins, "phi edges have the phi's type", ops, ws)
			case *ir.Return:
				res := fn.Signature.Results()
				if len(ins.Results) != res.Len() {
					c.add("typing", fn, "return of %d values for %d results", len(ins.Results), res.Len())
					break
				}
				for k, r := range ins.Results {
					rule(ins, fmt.Sprintf("return value %d has the result type", k), []ir.Value{r}, []types.Type{res.At(k).Type()})
				}
			case *ir.If:
				if b, ok := ins.Cond.Type().Underlying().(*types.Basic); !ok || b.Info()&types.IsBoolean == 0 {
					if !hasTP(ins.Cond.Type()) {
						c.add("typing", fn, "if condition of type %s", ins.Cond.Type())
					}
				}
			case *ir.Field:
				if st, ok := ins.X.Type().Underlying().(*types.Struct); ok && ins.Field < st.NumFields() {
					rule(ins, "field value has the field's type", []ir.Value{ins}, []types.Type{st.Field(ins.Field).Type()})
				}
			case *ir.FieldAddr:
				if e := deref(ins.X.Type()); e != nil {
					if st, ok := e.Underlying().(*types.Struct); ok && ins.Field < st.NumFields() {
						if p := deref(ins.Type()); p != nil {
							rule(ins, "field address points at the field's type", []ir.Value{ins}, []types.Type{types.NewPointer(st.Field(ins.Field).Type())})
						}
					}
				}
			case *ir.IndexAddr:
				var elem types.Type
				switch t := ins.X.Type().Underlying().(type) {
				case *types.Slice:
					elem = t.Elem()
				case *types.Pointer:
					if a, ok := t.Elem().Underlying().(*types.Array); ok {
						elem = a.Elem()
					}
				}
				if elem != nil {
					rule(ins, "element address points at the element type", []ir.Value{ins}, []types.Type{types.NewPointer(elem)})
				}
			case *ir.MapUpdate:
				if m, ok := ins.Map.Type().Underlying().(*types.Map); ok {
					rule(ins, "map update key/value have the map's key/element types", []ir.Value{ins.Key, ins.Value}, []types.Type{m.Key(), m.Elem()})
				}
			case *ir.MapLookup:
				if m, ok := ins.X.Type().Underlying().(*types.Map); ok {
					rule(ins, "map lookup index has the map's key type", []ir.Value{ins.Index}, []types.Type{m.Key()})
					if ins.CommaOk {
						if tup, ok := ins.Type().(*types.Tuple); ok && tup.Len() == 2 {
							if !hasTP(m.Elem()) && !types.Identical(tup.At(0).Type(), m.Elem()) {
								c.add("typing", fn, "comma-ok map lookup yields %s for element type %s: %s", tup.At(0).Type(), m.Elem(), ins)
							}
						} else {
							c.add("typing", fn, "comma-ok map lookup without a 2-tuple type: %s", ins)
						}
					} else {
						rule(ins, "map lookup result has the map's element type", []ir.Value{ins}, []types.Type{m.Elem()})
					}
				}
			case *ir.Index:
				if a, ok := ins.X.Type().Underlying().(*types.Array); ok {
					rule(ins, "index result has the array's element type", []ir.Value{ins}, []types.Type{a.Elem()})
				}
			case *ir.MakeSlice:
				for _, v := range []ir.Value{ins.Len, ins.Cap} {
					if v == nil {
						c.add("typing", fn, "MakeSlice without Len or Cap: %s", ins)
					} else if b, ok := v.Type().Underlying().(*types.Basic); (!ok || b.Info()&types.IsInteger == 0) && !hasTP(v.Type()) {
						c.add("typing", fn, "MakeSlice bound of non-integer type %s: %s", v.Type(), ins)
					}
				}
				if _, ok := ins.Type().Underlying().(*types.Slice); !ok && !hasTP(ins.Type()) {
					c.add("typing", fn, "MakeSlice of non-slice type %s", ins.Type())
				}
			case *ir.Slice:
				switch xt := ins.X.Type().Underlying().(type) {
				case *types.Slice:
					if rt, ok := ins.Type().Underlying().(*types.Slice); !ok || !types.Identical(rt.Elem(), xt.Elem()) {
						c.add("typing", fn, "slice of %s has type %s: %s", ins.X.Type(), ins.Type(), ins)
					}
				case *types.Basic:
					if xt.Info()&types.IsString != 0 {
						if rt, ok := ins.Type().Underlying().(*types.Basic); !ok || rt.Info()&types.IsString == 0 {
							c.add("typing", fn, "slice of a string has type %s: %s", ins.Type(), ins)
						}
					}
				case *types.Pointer:
					if a, ok := xt.Elem().Underlying().(*types.Array); ok {
						if rt, ok := ins.Type().Underlying().(*types.Slice); !ok || !types.Identical(rt.Elem(), a.Elem()) {
							c.add("typing", fn, "slice of %s has type %s: %s", ins.X.Type(), ins.Type(), ins)
						}
					}
				}
				for _, v := range []ir.Value{ins.Low, ins.High, ins.Max} {
					if v == nil {
						continue
					}
					if b, ok := v.Type().Underlying().(*types.Basic); (!ok || b.Info()&types.IsInteger == 0) && !hasTP(v.Type()) {
						c.add("typing", fn, "slice bound of non-integer type %s: %s", v.Type(), ins)
					}
				}
			case *ir.Send:
				if ch, ok := ins.Chan.Type().Underlying().(*types.Chan); ok {
					rule(ins, "sent value has the channel's element type", []ir.Value{ins.X}, []types.Type{ch.Elem()})
				}
			case *ir.Extract:
				if tup, ok := ins.Tuple.Type().(*types.Tuple); ok && ins.Index < tup.Len() {
					rule(ins, "extracted component has the tuple component's type", []ir.Value{ins}, []types.Type{tup.At(ins.Index).Type()})
				} else {
					c.add("typing", fn, "extract %d of %s: %s", ins.Index, ins.Tuple.Type(), ins)
				}
			case *ir.MakeClosure:
				if f, ok := ins.Fn.(*ir.Function); ok {
					if len(f.FreeVars) != len(ins.Bindings) {
						c.add("typing", fn, "closure with %d bindings for %d free variables: %s", len(ins.Bindings), len(f.FreeVars), ins)
						break
					}
					for k, bnd := range ins.Bindings {
						rule(ins, fmt.Sprintf("binding %d has the free variable's type", k), []ir.Value{bnd}, []types.Type{f.FreeVars[k].Type()})
					}
				}
			case *ir.ChangeType:
				// documented: named <-> underlying, two named types of the same
				// underlying type, pointers to identical base types, and a
				// bidirectional channel to a directed one
				if !hasTP(ins.Type()) && !hasTP(ins.X.Type()) && !types.Identical(ins.Type().Underlying(), ins.X.Type().Underlying()) {
					ok := false
					if pa, oka := ins.Type().Underlying().(*types.Pointer); oka {
						if pb, okb := ins.X.Type().Underlying().(*types.Pointer); okb && types.Identical(pa.Elem().Underlying(), pb.Elem().Underlying()) {
							ok = true
						}
					}
					if ca, oka := ins.Type().Underlying().(*types.Chan); oka {
						if cb, okb := ins.X.Type().Underlying().(*types.Chan); okb && cb.Dir() == types.SendRecv && types.Identical(ca.Elem(), cb.Elem()) {
							ok = true
						}
					}
					if !ok {
						c.add("typing", fn, "ChangeType between %s and %s: %s", ins.X.Type(), ins.Type(), ins)
					}
				}
			case *ir.Alloc:
				if _, ok := ins.Type().Underlying().(*types.Pointer); !ok {
					c.add("typing", fn, "Alloc of non-pointer type %s", ins.Type())
				}
			case *ir.TypeAssert:
				if _, ok := ins.X.Type().Underlying().(*types.Interface); !ok && !hasTP(ins.X.Type()) {
					c.add("typing", fn, "TypeAssert on non-interface type %s: %s", ins.X.Type(), ins)
				}
			case *ir.MakeInterface:
				if _, ok := ins.X.Type().Underlying().(*types.Interface); ok && !hasTP(ins.X.Type()) {
					c.add("typing", fn, "MakeInterface of an interface-typed operand %s: %s", ins.X.Type(), ins)
				}
				if _, ok := ins.Type().Underlying().(*types.Interface); !ok && !hasTP(ins.Type()) {
					c.add("typing", fn, "MakeInterface of non-interface type %s", ins.Type())
				}
			case *ir.Call:
				cc := ins.Common()
				if cc.IsInvoke() {
					break
				}
				sig, ok := cc.Value.Type().Underlying().(*types.Signature)
				if !ok {
					break
				}
				if _, isBuiltin := cc.Value.(*ir.Builtin); isBuiltin {
					break
				}
				params := sig.Params()
				args := cc.Args
				if sig.Recv() != nil {
					if len(args) == 0 {
						break
					}
					rule(ins, "receiver argument has the receiver type", []ir.Value{args[0]}, []types.Type{sig.Recv().Type()})
					args = args[1:]
				}
				if len(args) != params.Len() {
					c.add("typing", fn, "call with %d arguments for %d parameters: %s", len(args), params.Len(), ins)
					break
				}
				for k, a := range args {
					rule(ins, fmt.Sprintf("argument %d has the parameter type", k), []ir.Value{a}, []types.Type{params.At(k).Type()})
				}
			}
		}
	}
	ts := &typingScript{fn: fn, prelude: decl.String() + valDecl.String() + body.String()}
	for _, e := range eqns {
		ts.eqns = append(ts.eqns, e.text)
		ts.what = append(ts.what, e.what)
	}
	c.pending = append(c.pending, ts)
}

type typingScript struct {
	fn      *ir.Function
	prelude string
	eqns    []string
	what    []string
}

func (ts *typingScript) text() string {
	return "(push 1)\n" + ts.prelude + strings.Join(ts.eqns, "\n") + "\n(check-sat)\n(pop 1)\n"
}

// flushTyping lets the solver sort-check the accumulated encodings: all at
// once first, then per function and per equation where an error shows.
func (c *irChecker) flushTyping() {
	if len(c.pending) == 0 {
		return
	}
	var all strings.Builder
	all.WriteString("(set-logic ALL)\n")
	for _, ts := range c.pending {
		all.WriteString(ts.text())
	}
	out := smt.RunRaw("z3", all.String(), 120*time.Second)
	c.typQ++
	nSat := strings.Count(out, "sat")
	if !strings.Contains(out, "(error") && nSat == len(c.pending) {
		c.pending = nil
		return
	}
	for _, ts := range c.pending {
		o := smt.RunRaw("z3", "(set-logic ALL)\n"+ts.text(), 60*time.Second)
		c.typQ++
		if !strings.Contains(o, "(error") {
			if !strings.Contains(o, "sat") {
				c.add("tool", ts.fn, "typing query gave no answer: %q", o)
			}
			continue
		}
		for i, e := range ts.eqns {
			o := smt.RunRaw("z3", "(set-logic ALL)\n"+ts.prelude+e+"\n(check-sat)\n", 30*time.Second)
			c.typQ++
			if strings.Contains(o, "(error") {
				msg := strings.TrimSpace(o)
				if k := strings.Index(msg, "\n"); k > 0 {
					msg = msg[:k]
				}
				c.add("typing", ts.fn, "%s — solver: %s", ts.what[i], msg)
			}
		}
	}
	c.pending = nil
}

func (c *irChecker) posOf(ins ir.Instruction) string {
	if c.fset == nil || ins.Pos() == token.NoPos {
		return "-"
	}
	p := c.fset.Position(ins.Pos())
	return fmt.Sprintf("%s:%d", shortFile(p.Filename), p.Line)
}

func shortFile(s string) string {
	if i := strings.LastIndex(s, "/"); i >= 0 {
		return s[i+1:]
	}
	return s
}

// safeIdentical is types.Identical that tolerates go/ir's private type
// implementations (e.g. the defer stack) nested inside standard types.
func safeIdentical(a, b types.Type) (same bool) {
	defer func() {
		if recover() != nil {
			same = false
		}
	}()
	return types.Identical(a, b)
}
