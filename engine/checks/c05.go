package checks

func init() {
	Registry["C05"] = func() *Spec {
		return &Spec{
			ID:    "C05",
			Level: "model_checking",
			Groups: []Group{{
				PkgPath: "honnef.co/go/tools/lintcmd/cache", PkgDir: "lintcmd/cache", PkgName: "cache",
				Files: []string{"cache.go", "sha.go"},
				Entries: []Entry{
					{Fn: "Harness_C05_roundtrip", Tiers: "both", Reach: []string{"end"}, Bounds: "2 keys x 3 contents, no fault"},
					{Fn: "Harness_C05_fault", Tiers: "both", Reach: []string{"end"}, Bounds: "1 store; 1 fault from {writer dies at any offset of the copy, data file truncated to any shorter length / removed / trailing garbage, index entry truncated at 5 cut points / removed / replaced by the other key's entry / trailing garbage} over 2 keys (differing in the last id byte) and 3 contents (2, 3, 3 bytes; one a prefix of another)"},
					{Fn: "Harness_C05_fault_then_crash", Tiers: "both", Reach: []string{"end"}, Bounds: "1 store, 1 fault, then a writer that dies at any offset while storing any content under either key"},
					{Fn: "Harness_C05_lookup_fault_lookup", Tiers: "both", Reach: []string{"end"}, Bounds: "1 store, lookups of both keys, 1 fault, the same lookups again (one process: package-level state persists)"},
					{Fn: "Harness_C05_history", Tiers: "both", Reach: []string{"end"}, Bounds: "1-2 stores, 1 fault, optional re-store, lookups of both keys through GetBytes and GetFile"},
				},
			}},
			Assumptions: []string{
				"symbolic run: in-memory file system with atomic, sequential writes (a dying writer leaves a prefix of what it wrote); SHA-256 is the real function (contents are concrete choices); clock fixed",
				"a crash is modelled as the source reader dying during the copy, or as the equivalent post-state (truncated / missing files); crashes between two file-system calls of the index write are covered by the truncation cut points only",
				"single process; concurrent writers/readers/trimmers and the end-to-end clause (linter results through a damaged cache) are outside the claim",
			},
		}
	}
}
