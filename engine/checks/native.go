package checks

// Native driver: runs real analyzers of the repository over a package
// through the repository's own lintcmd/runner (TestMode, temporary cache).

import (
	"fmt"
	"os"

	"golang.org/x/tools/go/analysis"
	"golang.org/x/tools/go/packages"

	"honnef.co/go/tools/config"
	"honnef.co/go/tools/lintcmd/cache"
	"honnef.co/go/tools/lintcmd/runner"
)

type nativeFact struct {
	Analyzer, Object, Fact string
}

type nativeRun struct {
	Facts       []nativeFact
	Diagnostics []runner.Diagnostic
	Files       []string
}

func runAnalyzers(dir string, overlay map[string][]byte, patterns []string, as []*analysis.Analyzer) (out *nativeRun, err error) {
	defer func() {
		if r := recover(); r != nil {
			err = fmt.Errorf("analyzer run panicked: %v", r)
		}
	}()
	cdir, err := os.MkdirTemp(workDir("native"), "cache")
	if err != nil {
		return nil, err
	}
	defer os.RemoveAll(cdir)
	c, err := cache.Open(cdir)
	if err != nil {
		return nil, err
	}
	cache.SetSalt([]byte("verif"))
	r, err := runner.New(config.Config{Checks: []string{"all"}}, c)
	if err != nil {
		return nil, err
	}
	r.TestMode = true
	cfg := &packages.Config{Dir: dir, Tests: false, Overlay: overlay, Env: os.Environ()}
	res, err := r.Run(cfg, as, patterns)
	if err != nil {
		return nil, err
	}
	out = &nativeRun{}
	for _, x := range res {
		if !x.Initial {
			continue
		}
		if x.Failed {
			return nil, fmt.Errorf("package %s failed: %v", x.Package.PkgPath, x.Errors)
		}
		d, err := x.Load()
		if err != nil {
			return nil, err
		}
		td, err := x.LoadTest()
		if err != nil {
			return nil, err
		}
		for _, f := range td.Facts {
			out.Facts = append(out.Facts, nativeFact{f.Analyzer, f.ObjectName, f.FactString})
		}
		out.Diagnostics = append(out.Diagnostics, d.Diagnostics...)
		out.Files = append(out.Files, x.Package.GoFiles...)
	}
	return out, nil
}
