package checks

// C15: nilness facts are sound. The real nilness analysis is run natively
// (through the repository's runner) over the corpus; for every function
// whose exported fact claims NeverNil/AlwaysNil for some result, a harness
// is generated that calls the function on symbolic inputs (pointers nil or
// fresh, slices nil/empty/non-empty, maps, interfaces nil / typed-nil /
// non-nil, function values, integers) and asserts the claim at every normal
// return. The harness is executed by the symbolic engine over go/ssa
// (independent of go/ir, on which the analysis itself runs).

import (
	"fmt"
	"go/types"
	"os"
	"regexp"
	"sort"
	"strings"

	"golang.org/x/tools/go/analysis"
	"golang.org/x/tools/go/packages"

	"honnef.co/go/tools/analysis/facts/nilness"
)

var c15FactRe = regexp.MustCompile(`\{(\w+) (\w+)\}`)

func c15ArgExpr(t types.Type, idx int, pkg *types.Package) (decl, expr string, ok bool) {
	qual := func(p *types.Package) string {
		if p.Path() == pkg.Path() {
			return ""
		}
		return p.Name()
	}
	ts := types.TypeString(t, qual)
	v := fmt.Sprintf("a%d", idx)
	switch ts {
	case "*T":
		return fmt.Sprintf("%s := c15PtrT(vchoose(3))", v), v, true
	case "[]int":
		return fmt.Sprintf("%s := c15Ints(vchoose(3))", v), v, true
	case "map[int]*T":
		return fmt.Sprintf("%s := c15Map(vchoose(4))", v), v, true
	case "chan *T":
		return fmt.Sprintf("%s := c15Chan(vchoose(3))", v), v, true
	case "any", "interface{}":
		return fmt.Sprintf("%s := c15Any(vchoose(6))", v), v, true
	case "Source":
		return fmt.Sprintf("%s := c15Source(vchoose(5))", v), v, true
	case "func() *T":
		return fmt.Sprintf("%s := c15Func(vchoose(3))", v), v, true
	case "uintptr":
		return fmt.Sprintf("%s := uintptr(nondetUint64())", v), v, true
	case "int":
		return fmt.Sprintf("%s := nondetInt(); vassume(%s >= -1); vassume(%s <= 3)", v, v, v), v, true
	case "bool":
		return fmt.Sprintf("%s := nondetBool()", v), v, true
	}
	return "", "", false
}

const c15Support = `package nilc

import "unsafe"

func c15PtrT(k int) *T {
	switch k {
	case 0:
		return nil
	case 1:
		return &T{V: 1}
	}
	return &T{V: 2, Next: &T{V: 3}}
}

func c15Ints(k int) []int {
	switch k {
	case 0:
		return nil
	case 1:
		return []int{}
	}
	return []int{7}
}

func c15Map(k int) map[int]*T {
	switch k {
	case 0:
		return nil
	case 1:
		return map[int]*T{}
	case 2:
		return map[int]*T{1: nil}
	}
	return map[int]*T{1: {V: 4}}
}

func c15Chan(k int) chan *T {
	switch k {
	case 0:
		return nil
	case 1:
		return make(chan *T, 1)
	}
	c := make(chan *T, 1)
	if k == 2 {
		c <- nil
	}
	return c
}

func c15Any(k int) any {
	switch k {
	case 0:
		return nil
	case 1:
		return (*T)(nil)
	case 2:
		return &T{V: 5}
	case 3:
		return 5
	case 4:
		return nilSource{}
	}
	return fieldSource{}
}

func c15Source(k int) Source {
	switch k {
	case 0:
		return nil
	case 1:
		return nilSource{}
	case 2:
		return newSource{}
	case 3:
		return fieldSource{}
	}
	return fieldSource{t: &T{V: 6}}
}

func c15Func(k int) func() *T {
	switch k {
	case 0:
		return nil
	case 1:
		return func() *T { return nil }
	}
	return func() *T { return &T{V: 8} }
}

// c15InnerNil reports whether the value held by a non-nil interface is a nil
// pointer-like value.
func c15InnerNil(x any) bool {
	switch v := x.(type) {
	case *T:
		return v == nil
	case PT:
		return v == nil
	case []int:
		return v == nil
	case []byte:
		return v == nil
	case map[int]int:
		return v == nil
	case map[int]*T:
		return v == nil
	case func():
		return v == nil
	case func() *T:
		return v == nil
	case chan int:
		return v == nil
	case chan *T:
		return v == nil
	case unsafe.Pointer:
		return v == nil
	}
	return false
}
`

func c15Prepare(c *Ctx) (files map[string]string, entries []Entry, err error) {
	dir := corpusDir()
	res, err := runAnalyzers(dir, nil, []string{"./nilc"}, []*analysis.Analyzer{nilness.Analysis})
	if err != nil {
		return nil, nil, err
	}
	facts := map[string][][2]string{}
	dup := map[string]bool{}
	for _, f := range res.Facts {
		if f.Analyzer != "nilness" {
			continue
		}
		var comps [][2]string
		for _, m := range c15FactRe.FindAllStringSubmatch(f.Fact, -1) {
			comps = append(comps, [2]string{m[1], m[2]})
		}
		if _, seen := facts[f.Object]; seen {
			dup[f.Object] = true // methods of different types share a name: ambiguous, skipped
		}
		facts[f.Object] = comps
	}
	cfg := &packages.Config{Mode: packages.LoadAllSyntax, Dir: dir, Env: os.Environ()}
	pkgs, err := packages.Load(cfg, "./nilc")
	if err != nil {
		return nil, nil, err
	}
	if packages.PrintErrors(pkgs) > 0 {
		return nil, nil, fmt.Errorf("corpus does not type-check")
	}
	pkg := pkgs[0].Types
	var names []string
	for n := range facts {
		names = append(names, n)
	}
	sort.Strings(names)
	var hsb strings.Builder
	hsb.WriteString("package nilc\n\nimport \"unsafe\"\n\nvar _ unsafe.Pointer\n\n")
	var checked, skipped []string
	nclaims := 0
	for _, n := range names {
		if dup[n] {
			skipped = append(skipped, n+": ambiguous object name")
			continue
		}
		obj, ok := pkg.Scope().Lookup(n).(*types.Func)
		if !ok {
			skipped = append(skipped, n+": not a package-level function")
			continue
		}
		sig := obj.Type().(*types.Signature)
		comps := facts[n]
		if len(comps) != sig.Results().Len() {
			skipped = append(skipped, n+": fact arity mismatch")
			continue
		}
		interesting := false
		for _, cmp := range comps {
			if cmp[0] != "MaybeNil" || cmp[1] != "MaybeNil" {
				interesting = true
			}
		}
		if !interesting {
			continue
		}
		var body strings.Builder
		var args []string
		okArgs := true
		for i := 0; i < sig.Params().Len(); i++ {
			d, e, ok := c15ArgExpr(sig.Params().At(i).Type(), i, pkg)
			if !ok {
				okArgs = false
				break
			}
			body.WriteString("\t" + d + "\n")
			args = append(args, e)
		}
		if !okArgs {
			skipped = append(skipped, n+": parameter type outside the generator")
			continue
		}
		var rs []string
		for i := range comps {
			rs = append(rs, fmt.Sprintf("r%d", i))
		}
		body.WriteString("\tnormal := false\n")
		for i := range comps {
			fmt.Fprintf(&body, "\tvar r%d %s\n", i, types.TypeString(sig.Results().At(i).Type(), func(p *types.Package) string {
				if p.Path() == pkg.Path() {
					return ""
				}
				return p.Name()
			}))
		}
		fmt.Fprintf(&body, "\tfunc() {\n\t\tdefer func() { recover() }()\n\t\t%s = %s(%s)\n\t\tnormal = true\n\t}()\n", strings.Join(rs, ", "), n, strings.Join(args, ", "))
		body.WriteString("\tif !normal {\n\t\treturn\n\t}\n")
		for i := range comps {
			fmt.Fprintf(&body, "\t_ = r%d\n", i)
		}
		for i, cmp := range comps {
			_, isIface := sig.Results().At(i).Type().Underlying().(*types.Interface)
			msg := func(s string) string { return fmt.Sprintf("%q", fmt.Sprintf("%s: result %d %s", n, i, s)) }
			switch cmp[1] {
			case "NeverNil":
				fmt.Fprintf(&body, "\tvassert(r%d != nil, %s)\n", i, msg("is claimed never nil but is nil"))
				nclaims++
			case "AlwaysNil":
				fmt.Fprintf(&body, "\tvassert(r%d == nil, %s)\n", i, msg("is claimed always nil but is not nil"))
				nclaims++
			}
			if isIface {
				switch cmp[0] {
				case "NeverNil":
					fmt.Fprintf(&body, "\tif r%d != nil {\n\t\tvassert(!c15InnerNil(r%d), %s)\n\t}\n", i, i, msg("holds a value claimed never nil that is nil"))
					nclaims++
				case "AlwaysNil":
					fmt.Fprintf(&body, "\tif r%d != nil {\n\t\tvassert(c15InnerNil(r%d), %s)\n\t}\n", i, i, msg("holds a value claimed always nil that is not nil"))
					nclaims++
				}
			}
		}
		fmt.Fprintf(&hsb, "func Harness_C15_%s() {\n%s\tvreach(\"end\")\n}\n\n", n, body.String())
		entries = append(entries, Entry{Fn: "Harness_C15_" + n, Tiers: "both", Bounds: "fact " + fmt.Sprint(comps) + "; pointers nil / fresh / 2-chain, slices nil/empty/1, maps nil/empty/nil-entry/entry, interfaces nil / typed nil / non-nil (6 dynamic values), 5 Source implementations, func values nil / returns-nil / returns-new"})
		checked = append(checked, n)
	}
	c.Extra["functions_with_claims"] = checked
	c.Extra["claims_asserted"] = nclaims
	c.Extra["functions_skipped"] = skipped
	fmt.Printf("[C15] %d functions with non-trivial facts, %d claims, %d skipped\n", len(checked), nclaims, len(skipped))
	return map[string]string{"zz_c15_support.go": c15Support, "zz_c15.go": hsb.String()}, entries, nil
}

func init() {
	Registry["C15"] = func() *Spec {
		spec := &Spec{
			ID:    "C15",
			Level: "model_checking",
			Assumptions: []string{
				"programs: the corpus /verif/corpus/nilc (one or more functions per construct in the property's quantifier); facts are obtained by running the real analysis natively on every run",
				"methods are skipped (facts are reported by bare object name); channels are executed sequentially; recursion is bounded by the harness inputs",
				"a uintptr -> unsafe.Pointer conversion yields nil exactly for 0",
			},
		}
		spec.Prepare = func(c *Ctx) error {
			files, entries, err := c15Prepare(c)
			if err != nil {
				return err
			}
			spec.Groups = []Group{{PkgPath: "verifcorpus/nilc", PkgDir: "nilc", PkgName: "nilc", Root: corpusDir(), Gen: files, Entries: entries}}
			return nil
		}
		return spec
	}
}
