package checks

func init() {
	Registry["C17"] = func() *Spec {
		return &Spec{
			ID:    "C17",
			Level: "model_checking",
			Groups: []Group{{
				PkgPath: "honnef.co/go/tools/unused", PkgDir: "unused", PkgName: "unused",
				Files: []string{"graph.go", "ugen.go", "source.go"},
				Nop:   []string{"honnef.co/go/tools/unused.trace"},
				Entries: []Entry{
					{Fn: "Harness_C17_results_k3", Tiers: "both", Reach: []string{"end"}, Bounds: "root + 3 objects; all uses-adjacencies, all acyclic owns-adjacencies, all 6 numberings"},
					{Fn: "Harness_C17_merge_k3", Tiers: "both", Reach: []string{"end"}, Bounds: "root + 3 objects through Merge; node list in all 6 orders; merge optionally repeated"},
					{Fn: "Harness_C17_monotone_k3", Tiers: "both", Reach: []string{"end"}, Bounds: "root + 3 objects; one added uses-edge out of the root or a used object"},
					{Fn: "Harness_C17_src_order_q", Tiers: "quick", Reach: []string{"end"}, Bounds: "source level: 23-declaration skeleton, 2 reference presets, every move of one declaration to another position (506 orders); parsed, type-checked and analysed by the real code inside the engine"},
					{Fn: "Harness_C17_src_order", Tiers: "thorough", Reach: []string{"end"}, Bounds: "source level: 6 reference presets x 506 single-declaration moves"},
					{Fn: "Harness_C17_src_files", Tiers: "both", Reach: []string{"end"}, Bounds: "source level: 6 presets x every split of the declaration list into two files x both file orders"},
					{Fn: "Harness_C17_src_fields", Tiers: "both", Reach: []string{"end"}, Bounds: "source level: 6 presets x exchange of two fields inside struct t1 (3 pairs) or of the two embedded fields of the embedding diamond d1"},
					{Fn: "Harness_C17_src_repeat", Tiers: "both", Reach: []string{"end"}, Bounds: "source level: 6 presets; analysis repeated on the same and on freshly loaded syntax"},
					{Fn: "Harness_C17_src_monotone", Tiers: "both", Reach: []string{"end"}, Bounds: "source level: 6 presets x one of 19 reference forms added to the exported function"},
				},
			}, {
				PkgPath: "honnef.co/go/tools/lintcmd", PkgDir: "lintcmd", PkgName: "lintcmd",
				Files: []string{"variants.go", "lintstub.go"},
				Entries: []Entry{
					{Fn: "Harness_C17_variants_211", Tiers: "both", Reach: []string{"end"}, Bounds: "2 packages, 2+1 variants, 1 object listing per variant; symbolic line (1..2), name byte, file base byte, ObjectPath package, used/unused/absent, U1000 enabled per package"},
					{Fn: "Harness_C17_variants_221", Tiers: "both", Reach: []string{"end"}, Bounds: "2 packages, 2+2 variants, 1 object listing per variant; ObjectPath package present for all or for none"},
					{Fn: "Harness_C17_variants_212", Tiers: "thorough", Reach: []string{"end"}, Bounds: "2 packages, 2+1 variants, 2 object listings per variant; ObjectPath package present for all or for none"},
				},
			}},
			Assumptions: []string{
				"variants clause: the runner (package loading, analysis, gob result files) is replaced by stubs returning the symbolic per-variant unused.Result lists; only (*linter).lint's merge is executed",
				"ownership is acyclic (colorAndQuieten recurses over owns without a visited set)",
				"graph level only: the construction of the graph from syntax (file/declaration order) is outside the claim",
			},
		}
	}
}
