package checks

func init() {
	Registry["C17"] = func() *Spec {
		return &Spec{
			ID:    "C17",
			Level: "model_checking",
			Groups: []Group{{
				PkgPath: "honnef.co/go/tools/unused", PkgDir: "unused", PkgName: "unused",
				Files: []string{"graph.go"},
				Nop:   []string{"honnef.co/go/tools/unused.trace"},
				Entries: []Entry{
					{Fn: "Harness_C17_results_k3", Tiers: "both", Reach: []string{"end"}, Bounds: "root + 3 objects; all uses-adjacencies, all acyclic owns-adjacencies, all 6 numberings"},
					{Fn: "Harness_C17_merge_k3", Tiers: "both", Reach: []string{"end"}, Bounds: "root + 3 objects through Merge; node list in all 6 orders; merge optionally repeated"},
					{Fn: "Harness_C17_monotone_k3", Tiers: "both", Reach: []string{"end"}, Bounds: "root + 3 objects; one added uses-edge out of the root or a used object"},
					{Fn: "Harness_C17_results_k4", Tiers: "thorough", Reach: []string{"end"}, Bounds: "root + 4 objects, uses out-degree <= 2, all 24 numberings"},
					{Fn: "Harness_C17_merge_k4", Tiers: "thorough", Reach: []string{"end"}, Bounds: "root + 4 objects through Merge, uses out-degree <= 2"},
				},
			}, {
				PkgPath: "honnef.co/go/tools/lintcmd", PkgDir: "lintcmd", PkgName: "lintcmd",
				Files: []string{"variants.go"},
				Entries: []Entry{
					{Fn: "Harness_C17_variants_211", Tiers: "both", Reach: []string{"end"}, Bounds: "2 packages, 2+1 variants, 1 object listing per variant; symbolic line (1..2), name byte, file base byte, ObjectPath package, used/unused/absent, U1000 enabled per package"},
					{Fn: "Harness_C17_variants_221", Tiers: "both", Reach: []string{"end"}, Bounds: "2 packages, 2+2 variants, 1 object listing per variant; ObjectPath package present for all or for none"},
					{Fn: "Harness_C17_variants_212", Tiers: "thorough", Reach: []string{"end"}, Bounds: "2 packages, 2+1 variants, 2 object listings per variant; ObjectPath package present for all or for none"},
				},
			}},
			Assumptions: []string{
				"variants clause: the runner (package loading, analysis, gob result files) is replaced by stubs returning the symbolic per-variant unused.Result lists; only (*linter).lint's merge is executed",
				"ownership is acyclic (colorAndQuieten recurses over owns without a visited set)",
				"graph level only: the construction of the graph from syntax (file/declaration order) is outside the claim",
			},
		}
	}
}
