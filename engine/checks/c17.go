package checks

func init() {
	Registry["C17"] = func() *Spec {
		return &Spec{
			ID:    "C17",
			Level: "model_checking",
			Groups: []Group{{
				PkgPath: "honnef.co/go/tools/unused", PkgDir: "unused", PkgName: "unused",
				Files: []string{"graph.go"},
				Nop:   []string{"honnef.co/go/tools/unused.trace"},
				Entries: []Entry{
					{Fn: "Harness_C17_results_k3", Tiers: "both", Reach: []string{"end"}, Bounds: "root + 3 objects; all uses-adjacencies, all acyclic owns-adjacencies, all 6 numberings"},
					{Fn: "Harness_C17_merge_k3", Tiers: "both", Reach: []string{"end"}, Bounds: "root + 3 objects through Merge; node list in all 6 orders; merge optionally repeated"},
					{Fn: "Harness_C17_monotone_k3", Tiers: "both", Reach: []string{"end"}, Bounds: "root + 3 objects; one added uses-edge out of the root or a used object"},
					{Fn: "Harness_C17_results_k4", Tiers: "thorough", Reach: []string{"end"}, Bounds: "root + 4 objects, uses out-degree <= 2, all 24 numberings"},
					{Fn: "Harness_C17_merge_k4", Tiers: "thorough", Reach: []string{"end"}, Bounds: "root + 4 objects through Merge, uses out-degree <= 2"},
				},
			}},
			Assumptions: []string{
				"ownership is acyclic (colorAndQuieten recurses over owns without a visited set)",
				"graph level only: the construction of the graph from syntax (file/declaration order) is outside the claim",
			},
		}
	}
}
