package checks

import (
	"fmt"
	"strings"
)

// genPrograms emits a bounded-exhaustive family of small functions over a
// fixed vocabulary (two int locals, a bool parameter, assignments, if/else,
// a bounded for loop, escapes of &x, observable uses, break/continue,
// early return, goto to a trailing label): every statement sequence of
// length <= 2 at the top level whose elements come from the depth-1
// statement set. The same text is used for C01 (semantics), C02 and C14b.
func genPrograms(tier string) string {
	atoms := []string{
		"x = y + 1",
		"y = x * 2",
		"x, y = y, x",
		"use(x)",
		"esc(&x)",
		"x++",
		"esc2(&x, &x)",
		"esc2(&y, &x)",
	}
	ctl := []string{
		"if c { %s } else { %s }",
		"if c { %s }",
		"for i := 0; i < n && i < 3; i++ { %s }",
		"for i := 0; i < n && i < 3; i++ { %s; if x > 5 { break }; %s }",
		"for i := 0; i < n && i < 3; i++ { if c { %s; continue }; %s }",
		"for i := 0; i < n && i < 4; i++ { if i%%2 == 0 { %s } else { %s } }",
		"if x > 3 { %s; return x + y }",
		"if c { %s; goto done }",
	}
	var stmts []string
	stmts = append(stmts, atoms...)
	nAtomsInCtl := len(atoms)
	if tier != "thorough" {
		nAtomsInCtl = 4
	}
	for _, c := range ctl {
		holes := strings.Count(c, "%s")
		if holes == 1 {
			for _, a := range atoms[:nAtomsInCtl+0] {
				stmts = append(stmts, fmt.Sprintf(c, a))
			}
			// always include the escape inside control flow
			stmts = append(stmts, fmt.Sprintf(c, "esc(&x)"))
		} else {
			for i, a := range atoms[:nAtomsInCtl] {
				b := atoms[(i+2)%len(atoms)]
				stmts = append(stmts, fmt.Sprintf(c, a, b))
				stmts = append(stmts, fmt.Sprintf(c, "esc(&x)", a))
				stmts = append(stmts, fmt.Sprintf(c, a, "esc(&x)"))
			}
		}
	}
	var sb strings.Builder
	sb.WriteString("package irc\n\n")
	k := 0
	emit := func(body ...string) {
		// two epilogues: both locals live at the end, or only y (so that x is
		// live only where the body reads it)
		for _, epi := range []string{"return x*31 + y", "return y"} {
			k++
			fmt.Fprintf(&sb, "func Gen%d(c bool, n int, a, b int) int {\n\tx, y := a, b\n\t_, _ = x, y\n", k)
			for _, s := range body {
				sb.WriteString("\t" + s + "\n")
			}
			sb.WriteString("\tgoto done\ndone:\n\t" + epi + "\n}\n\n")
		}
	}
	for _, s := range stmts {
		emit(s)
	}
	limit := len(stmts)
	if tier != "thorough" && limit > 40 {
		limit = 40
	}
	for i := 0; i < limit; i++ {
		for j := 0; j < len(stmts); j++ {
			if tier != "thorough" && (i*7+j*3)%5 != 0 {
				continue // quick tier: a fixed fifth of the pairs
			}
			emit(stmts[i], stmts[j])
		}
	}
	return sb.String()
}
