package checks

import (
	"fmt"
	"strings"
)

// genPrograms emits a bounded-exhaustive family of small functions over a
// fixed vocabulary (two int locals, a bool parameter, assignments, if/else,
// a bounded for loop, escapes of &x, observable uses, break/continue,
// early return, goto to a trailing label): every statement sequence of
// length <= 2 at the top level whose elements come from the depth-1
// statement set. The same text is used for C01 (semantics), C02 and C14b.
func genPrograms(tier string) string {
	atoms := []string{
		"x = y + 1",
		"y = x * 2",
		"x, y = y, x",
		"use(x)",
		"esc(&x)",
		"x++",
		"esc2(&x, &x)",
		"esc2(&y, &x)",
		"x, y = y+1, x",
		"{ bb := x > y && true; useB(bb || false) }",
		"{ x, z := y, x; y = z; use(x) }",
		"func() { x++ }()",
		"defer func() { use(x) }()",
		"{ p := &y; *p += x }",
	}
	ctl := []string{
		"if c { %s } else { %s }",
		"if c { %s }",
		"for i := 0; i < n && i < 3; i++ { %s }",
		"for i := 0; i < n && i < 3; i++ { %s; if x > 5 { break }; %s }",
		"for i := 0; i < n && i < 3; i++ { if c { %s; continue }; %s }",
		"for i := 0; i < n && i < 4; i++ { if i%%2 == 0 { %s } else { %s } }",
		"if x > 3 { %s; return x + y }",
		"if c { %s; goto done }",
		"switch { case x > 2: %s; fallthrough; case c: %s; default: use(0) }",
		"switch z := x & 3; z { case 0: %s; case 1, 2: %s }",
		"@L: for i := 0; i < n && i < 3; i++ { for j := 0; j < 2; j++ { if c { %s; continue @L }; %s; if y > 9 { break @L } } }",
		"for i := range 3 { f := func() int { return i + x }; %s; use(f()) }",
		"for _, v := range []int{x, y} { %s; use(v) }",
		"if x > 1 || c && y > 1 { %s } else if !c { %s }",
	}
	var stmts []string
	stmts = append(stmts, atoms...)
	nAtomsInCtl := len(atoms)
	if tier != "thorough" {
		nAtomsInCtl = 4
	}
	for _, c := range ctl {
		holes := strings.Count(c, "%s")
		if holes == 1 {
			for _, a := range atoms[:nAtomsInCtl+0] {
				stmts = append(stmts, fmt.Sprintf(c, a))
			}
			// always include the escape inside control flow
			stmts = append(stmts, fmt.Sprintf(c, "esc(&x)"))
		} else {
			for i, a := range atoms[:nAtomsInCtl] {
				b := atoms[(i+2)%len(atoms)]
				stmts = append(stmts, fmt.Sprintf(c, a, b))
				stmts = append(stmts, fmt.Sprintf(c, "esc(&x)", a))
				stmts = append(stmts, fmt.Sprintf(c, a, "esc(&x)"))
			}
		}
	}
	var sb strings.Builder
	sb.WriteString("package irc\n\n")
	k := 0
	nlabel := 0
	emit := func(body ...string) {
		// two epilogues: both locals live at the end, or only y (so that x is
		// live only where the body reads it)
		for _, epi := range []string{"return x*31 + y", "return y"} {
			k++
			fmt.Fprintf(&sb, "func Gen%d(c bool, n int, a, b int) int {\n\tx, y := a, b\n\t_, _ = x, y\n", k)
			for _, s := range body {
				nlabel++
				s = strings.ReplaceAll(s, "@L", fmt.Sprintf("L%d", nlabel))
				sb.WriteString("\t" + s + "\n")
			}
			sb.WriteString("\tgoto done\ndone:\n\t" + epi + "\n}\n\n")
		}
	}
	for _, s := range stmts {
		emit(s)
	}
	limit := len(stmts)
	if tier != "thorough" && limit > 40 {
		limit = 40
	}
	for i := 0; i < limit; i++ {
		for j := 0; j < len(stmts); j++ {
			if tier != "thorough" && (i*7+j*3)%8 != 0 {
				continue // quick tier: a fixed eighth of the pairs
			}
			if tier == "thorough" && (i*5+j*3)%48 != 0 {
				continue // thorough tier: a fixed forty-eighth of all pairs
			}
			emit(stmts[i], stmts[j])
		}
	}
	sb.WriteString(genGotoPrograms(tier))
	return sb.String()
}

// genGotoPrograms emits functions whose control flow is built from labels
// and gotos only, so that arbitrary (also irreducible) CFGs, empty labelled
// statements, labels reached by goto and by fall-through, and label orders
// that differ from the depth-first order occur.
//
// Family GGF (executable, used by C01 as well): every block counts a fuel
// variable and leaves when it runs out, so every input terminates.
// Family GGP (C02, C14 only): no fuel; blocks may be empty.
// The shapes are drawn by a fixed linear congruential sequence (the same on
// every run): for n = 3..8 labelled blocks, per block an optional observable
// call and one of the terminators {fall through, goto j, if p goto j (then
// fall through), if p goto j else goto k, return}.
func genGotoPrograms(tier string) string {
	var sb strings.Builder
	state := uint64(0x9E3779B97F4A7C15)
	rnd := func(n int) int {
		state = state*6364136223846793005 + 1442695040888963407
		return int((state >> 33) % uint64(n))
	}
	count := 200
	if tier == "thorough" {
		count = 600
	}
	for k := 0; k < count; k++ {
		n := 3 + rnd(6)
		type blk struct {
			work     bool
			term     int // 0 fall, 1 goto, 2 if-goto, 3 if-goto-else-goto, 4 return
			j, k, pr int
		}
		var bs []blk
		var used []bool
	draw:
		bs = make([]blk, n)
		used = make([]bool, n)
		for i := range bs {
			b := &bs[i]
			b.work = rnd(3) != 0
			b.term = rnd(5)
			b.j, b.k, b.pr = rnd(n), rnd(n), rnd(3)
			if i == n-1 && (b.term == 0 || b.term == 2) {
				b.term = 4 // the last block cannot fall through
			}
			switch b.term {
			case 1, 2:
				used[b.j] = true
			case 3:
				used[b.j], used[b.k] = true, true
			}
		}
		{
			// keep only shapes in which every block is reachable from the first
			reach := make([]bool, n)
			var visit func(i int)
			visit = func(i int) {
				if i >= n || reach[i] {
					return
				}
				reach[i] = true
				b := bs[i]
				switch b.term {
				case 0:
					visit(i + 1)
				case 1:
					visit(b.j)
				case 2:
					visit(b.j)
					visit(i + 1)
				case 3:
					visit(b.j)
					visit(b.k)
				}
			}
			visit(0)
			for _, r := range reach {
				if !r {
					goto draw
				}
			}
		}
		for _, fuel := range []bool{true, false} {
			name := fmt.Sprintf("GGP%d", k)
			if fuel {
				name = fmt.Sprintf("GGF%d", k)
			}
			fmt.Fprintf(&sb, "func %s(p0, p1, p2 bool) int {\n\tc := 0\n\t_ = c\n", name)
			for i, b := range bs {
				if used[i] {
					fmt.Fprintf(&sb, "L%d:\n", i)
				}
				if fuel {
					fmt.Fprintf(&sb, "\tc++\n\tif c > 5 {\n\t\treturn c\n\t}\n")
				}
				if b.work || (!used[i] && !fuel && b.term == 0) {
					fmt.Fprintf(&sb, "\tuse(%d)\n", i)
				} else if used[i] && !fuel && b.term == 0 {
					sb.WriteString("\t;\n")
				}
				switch b.term {
				case 1:
					fmt.Fprintf(&sb, "\tgoto L%d\n", b.j)
				case 2:
					fmt.Fprintf(&sb, "\tif p%d {\n\t\tgoto L%d\n\t}\n", b.pr, b.j)
				case 3:
					fmt.Fprintf(&sb, "\tif p%d {\n\t\tgoto L%d\n\t}\n\tgoto L%d\n", b.pr, b.j, b.k)
				case 4:
					fmt.Fprintf(&sb, "\treturn %d\n", i)
				}
			}
			sb.WriteString("}\n\n")
		}
	}
	return sb.String()
}
