package checks

func init() {
	Registry["C11"] = func() *Spec {
		return &Spec{
			ID:    "C11",
			Level: "model_checking",
			Groups: []Group{{
				PkgPath: "honnef.co/go/tools/lintcmd", PkgDir: "lintcmd", PkgName: "lintcmd",
				Files: []string{"select.go", "analyzers.go", "lintloop.go", "formats.go", "../C17/lintstub.go"},
				Nop:   []string{"(*honnef.co/go/tools/lintcmd.sarifFormatter).Format"},
				Entries: []Entry{
					{Fn: "Harness_C11_selection_1", Tiers: "both", Reach: []string{"end"}, Bounds: "check lists of 1 token from 21 (all, *, category/prefix globs, names, mixed case, unknown, negations, lone '-') over 7 analyzers in 4 categories"},
					{Fn: "Harness_C11_selection_2", Tiers: "both", Reach: []string{"end"}, Bounds: "check lists of 2 tokens (441 lists)"},
					{Fn: "Harness_C11_inherit_d2", Tiers: "both", Reach: []string{"end"}, Bounds: "default + 2 staticcheck.conf levels (checks unset / empty / 1-2 tokens from {inherit, all, -S1000, S1000, -SA*}) + -checks (same shapes)"},
					{Fn: "Harness_C11_exit_2", Tiers: "both", Reach: []string{"end"}, Bounds: "2 problems (5 categories incl. compile/config/staticcheck, ignored or not) x -fail lists of 0-2 tokens x formatter text|null|sarif"},
					{Fn: "Harness_C11_formats_2", Tiers: "both", Reach: []string{"end"}, Bounds: "2 problems, each without a position / in one of two files on one of two lines, ignored or not; text vs stylish through printDiagnostics"},
					{Fn: "Harness_C11_formats_3", Tiers: "both", Reach: []string{"end"}, Bounds: "3 problems, same choices"},
					{Fn: "Harness_C11_lint_results2", Tiers: "both", Reach: []string{"end"}, Bounds: "result loop of (*linter).lint with the runner stubbed: 2 results, each failed / initial / skipped symbolic, 3 error kinds, its problem's check enabled or not"},
					{Fn: "Harness_C11_lint_results3", Tiers: "thorough", Reach: []string{"end"}, Bounds: "result loop of (*linter).lint: 3 results"},
					{Fn: "Harness_C11_selection_3", Tiers: "thorough", Reach: []string{"end"}, Bounds: "check lists of 3 tokens (9261 lists)"},
					{Fn: "Harness_C11_inherit_d3", Tiers: "thorough", Reach: []string{"end"}, Bounds: "default + 3 staticcheck.conf levels + -checks, 4-token vocabulary"},
					{Fn: "Harness_C11_inherit_d2_full", Tiers: "thorough", Reach: []string{"end"}, Bounds: "default + 2 levels + -checks, 8-token vocabulary (405k combinations)"},
				},
			}},
			Assumptions: []string{
				"lint result loop: the runner (loading, analysis, gob result files) is replaced by stubs returning the symbolic results; package errors are one plain error or one packages.Error with a position",
				"kernel only: the directory walk and TOML decoding of parseConfigs, rendering of JSON/SARIF (encoding/json is outside the engine's reflect model), the byte layout of stylish output, and -show-ignored are outside the claim",
				"sarifFormatter.Format is given an empty body (formatting is not the subject of the exit-status clause)",
			},
		}
	}
}
