package cache

import "crypto/sha256"

func sha256sum(b []byte) [32]byte { return sha256.Sum256(b) }
