package cache

// C05: a cache lookup either misses or returns exactly the bytes last
// stored completely under that key — after a writer died at any point of
// the data copy, after truncation / removal / trailing garbage in the data
// or index file, with another key's index entry in place, and after the
// same content is stored again over damaged files.
//
// Real code executed: Open, DiskCache.Put/put/copyFile/putIndexEntry,
// get/Get, GetFile, GetBytes, OutputFile, fileName, used (with encoding/hex,
// strconv, io.ReadFull/Copy/CopyN/MultiWriter interpreted).
// Environment (symbolic run): in-memory file system, SHA-256 as the real
// function on concrete bytes, fixed clock. The same harness runs natively on
// a temporary directory (replay / conformance).

import (
	"bytes"
	"os"
	"path/filepath"
	"time"
)

var c05Contents = [][]byte{[]byte("ab"), []byte("abc"), []byte("abd")}

// two action ids that differ only in their last byte
var c05IDs = []ActionID{{0: 0x11, 5: 7, 31: 1}, {0: 0x11, 5: 7, 31: 2}}

type c05Crash struct{}

// c05Reader is the source handed to Put; it dies (panics) when the second
// pass over the data — the copy into the cache — reaches offset crashAt.
type c05Reader struct {
	data    []byte
	pos     int
	pass    int
	crashAt int // -1: never
}

func (r *c05Reader) Read(p []byte) (int, error) {
	if r.pass == 2 && r.crashAt >= 0 && r.pos >= r.crashAt {
		panic(c05Crash{})
	}
	if r.pos >= len(r.data) {
		return 0, errEOF()
	}
	n := 0
	for n < len(p) && r.pos < len(r.data) {
		if r.pass == 2 && r.crashAt >= 0 && r.pos >= r.crashAt {
			break
		}
		p[n] = r.data[r.pos]
		n++
		r.pos++
	}
	return n, nil
}

func (r *c05Reader) Seek(off int64, whence int) (int64, error) {
	if whence == 0 && off == 0 {
		r.pos = 0
		r.pass++
		return 0, nil
	}
	panic("c05Reader: unexpected seek")
}

func errEOF() error {
	_, err := bytes.NewReader(nil).Read(make([]byte, 1))
	return err
}

type c05State struct {
	c     *DiskCache
	ghost [2]int // content last completely stored under each id (-1: none)
}

func (s *c05State) put(id, content int) {
	_, _, err := s.c.Put(c05IDs[id], &c05Reader{data: c05Contents[content], crashAt: -1})
	if err != nil {
		vobserve("puterr", err.Error())
	}
	vassert(err == nil, "Put of a readable source succeeds")
	s.ghost[id] = content
}

func (s *c05State) putCrash(id, content, at int) {
	defer func() {
		if r := recover(); r != nil {
			if _, ok := r.(c05Crash); !ok {
				panic(r)
			}
		}
	}()
	_, _, err := s.c.Put(c05IDs[id], &c05Reader{data: c05Contents[content], crashAt: at})
	if err == nil {
		// the data was already in the cache: nothing had to be copied and the store completed
		s.ghost[id] = content
	}
}

func (s *c05State) dataFile(content int) string {
	h := NewHash("x")
	_ = h
	out := OutputID(sha256sum(c05Contents[content]))
	return s.c.fileName(out, "d")
}

func (s *c05State) indexFile(id int) string { return s.c.fileName(c05IDs[id], "a") }

func c05Exists(name string) bool {
	_, err := os.Stat(name)
	return err == nil
}

// damage applies one fault to the files of the cache.
func (s *c05State) damage() {
	content := vchoose(len(c05Contents))
	id := vchoose(2)
	switch vchoose(8) {
	case 0: // the writer dies while copying
		s.putCrash(id, content, vchoose(len(c05Contents[content])))
	case 1: // data file truncated
		f := s.dataFile(content)
		if c05Exists(f) {
			os.Truncate(f, int64(vchoose(len(c05Contents[content]))))
		}
	case 2: // data file removed
		os.Remove(s.dataFile(content))
	case 3: // trailing garbage in the data file
		f := s.dataFile(content)
		if b, err := os.ReadFile(f); err == nil {
			os.WriteFile(f, append(b, 'Z'), 0o666)
		}
	case 4: // index entry truncated
		f := s.indexFile(id)
		if b, err := os.ReadFile(f); err == nil && len(b) > 0 {
			cut := []int{0, 1, 67, len(b) - 21, len(b) - 1}[vchoose(5)]
			if cut >= 0 && cut < len(b) {
				os.Truncate(f, int64(cut))
			}
		}
	case 5: // index entry removed
		os.Remove(s.indexFile(id))
	case 6: // another key's index entry in place of this key's
		if b, err := os.ReadFile(s.indexFile(1 - id)); err == nil {
			os.WriteFile(s.indexFile(id), b, 0o666)
		}
	case 7: // trailing garbage after the index entry
		f := s.indexFile(id)
		if b, err := os.ReadFile(f); err == nil {
			os.WriteFile(f, append(b, '\n'), 0o666)
		}
	}
}

func (s *c05State) lookups() {
	for id := 0; id < 2; id++ {
		data, _, err := GetBytes(s.c, c05IDs[id])
		if err == nil {
			vassert(s.ghost[id] >= 0 && bytes.Equal(data, c05Contents[max(s.ghost[id], 0)]), "GetBytes returned bytes other than the content last stored completely under the key")
		}
		file, entry, err := GetFile(s.c, c05IDs[id])
		if err == nil {
			b, rerr := os.ReadFile(file)
			vassert(rerr == nil, "GetFile returned a file that cannot be read")
			vassert(s.ghost[id] >= 0 && bytes.Equal(b, c05Contents[max(s.ghost[id], 0)]), "GetFile returned a file whose bytes are not the content last stored completely under the key")
			vassert(entry.Size == int64(len(b)), "GetFile's entry size differs from the file")
		}
		vobserve("hit", err == nil)
	}
}

func c05Open() *c05State {
	dir := vtempdir()
	c, err := Open(dir)
	vassert(err == nil, "Open succeeds on an existing directory")
	return &c05State{c: c, ghost: [2]int{-1, -1}}
}

// c05OpenFast builds the cache value directly and creates only the
// sub-directories the scenario can touch (Open creates all 256).
func c05OpenFast() *c05State {
	dir := vtempdir()
	s := &c05State{c: &DiskCache{dir: dir, now: time.Now}, ghost: [2]int{-1, -1}}
	for i := range c05IDs {
		os.MkdirAll(filepath.Dir(s.indexFile(i)), 0o777)
	}
	for i := range c05Contents {
		os.MkdirAll(filepath.Dir(s.dataFile(i)), 0o777)
	}
	return s
}

// a fault, then a writer that dies while storing (e.g. after a trim removed
// the data file of an entry that is still indexed)
func Harness_C05_fault_then_crash() {
	s := c05OpenFast()
	s.put(0, vchoose(len(c05Contents)))
	s.damage()
	content := vchoose(len(c05Contents))
	s.putCrash(vchoose(2), content, vchoose(len(c05Contents[content])))
	s.lookups()
	vreach("end")
}

// one store, one fault, lookups
func Harness_C05_fault() {
	s := c05Open()
	s.put(0, vchoose(len(c05Contents)))
	s.damage()
	s.lookups()
	vreach("end")
}

// two stores (same or different key and content), one fault, optionally the
// same or another content stored again, lookups
func Harness_C05_history() {
	s := c05OpenFast()
	s.put(0, vchoose(len(c05Contents)))
	if nondetBool() {
		s.put(vchoose(2), vchoose(len(c05Contents)))
	}
	s.damage()
	if nondetBool() {
		s.put(vchoose(2), vchoose(len(c05Contents)))
	}
	s.lookups()
	vreach("end")
}

// no fault at all: every lookup hits with the stored bytes
func Harness_C05_roundtrip() {
	s := c05Open()
	a := vchoose(len(c05Contents))
	s.put(0, a)
	b := vchoose(len(c05Contents))
	s.put(1, b)
	data, _, err := GetBytes(s.c, c05IDs[0])
	vassert(err == nil && bytes.Equal(data, c05Contents[a]), "a stored entry is found again with its bytes")
	data, _, err = GetBytes(s.c, c05IDs[1])
	vassert(err == nil && bytes.Equal(data, c05Contents[b]), "a stored entry is found again with its bytes")
	s.lookups()
	vreach("end")
}

// a lookup before the fault and again after it, in one process: whatever the
// first lookup left behind in package-level state must not let the second
// one hand out damaged data
func Harness_C05_lookup_fault_lookup() {
	s := c05OpenFast()
	s.put(0, vchoose(len(c05Contents)))
	s.lookups()
	s.damage()
	s.lookups()
	vreach("end")
}
