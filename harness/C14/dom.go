package ir

// C14 (a): the real buildDomTree / numberDomTree / Dominates / Idom /
// Dominees / DomPreorder / DomPostorder on every control-flow graph with N
// blocks (adjacency enumerated by forking; self-loops, irreducible loops,
// optional recover block), against the definition of dominance: a dominates
// b iff every path from the root of b's region (entry, or the recover block
// for blocks reachable only from it) to b passes through a.
// The ordered pair (a, b) queried is symbolic: one solver query per graph
// covers all pairs.

func c14Reach(n int, succ [][]bool, root int, removed int) []bool {
	seen := make([]bool, n)
	if root == removed {
		return seen
	}
	stack := []int{root}
	seen[root] = true
	for len(stack) > 0 {
		v := stack[len(stack)-1]
		stack = stack[:len(stack)-1]
		for w := 0; w < n; w++ {
			if succ[v][w] && !seen[w] && w != removed {
				seen[w] = true
				stack = append(stack, w)
			}
		}
	}
	return seen
}

// c14DomSampled: graph number k of a fixed pseudo-random family with n
// blocks: every block gets 0-2 successors drawn uniformly (a linear
// congruential sequence instead of forking); block i+1 is additionally made a
// successor of some earlier block so that most graphs are connected.
func c14DomSampled(n, count int) {
	state := uint64(vchoose(count))*0x9E3779B97F4A7C15 + 12345
	c14DomWith(n, false, 2, func(m int) int {
		state = state*6364136223846793005 + 1442695040888963407
		return int((state >> 33) % uint64(m))
	})
}

func c14Dom(n int, withRecover bool, maxOut int) {
	c14DomWith(n, withRecover, maxOut, nil)
}

func c14DomWith(n int, withRecover bool, maxOut int, draw func(int) int) {
	fn := &Function{Prog: &Program{}}
	blocks := make([]*BasicBlock, n)
	for i := range blocks {
		blocks[i] = &BasicBlock{Index: i, parent: fn}
	}
	fn.Blocks = blocks
	rec := -1
	if withRecover {
		rec = n - 1
		fn.Recover = blocks[rec]
	}
	succ := make([][]bool, n)
	for i := range succ {
		succ[i] = make([]bool, n)
	}
	addEdge := func(i, j int) {
		if succ[i][j] {
			return
		}
		succ[i][j] = true
		blocks[i].Succs = append(blocks[i].Succs, blocks[j])
		blocks[j].Preds = append(blocks[j].Preds, blocks[i])
	}
	if draw != nil {
		// a spanning structure first (block j hangs off an earlier block with a
		// free slot), then a second successor for about half of the blocks
		for j := 1; j < n; j++ {
			i := draw(j)
			for len(blocks[i].Succs) >= maxOut {
				i = (i + 1) % j
			}
			addEdge(i, j)
		}
		for i := 0; i < n; i++ {
			if len(blocks[i].Succs) < maxOut && draw(2) == 0 {
				addEdge(i, 1+draw(n-1))
			}
		}
	} else {
		for i := 0; i < n; i++ {
			out := 0
			for j := 1; j < n; j++ { // the entry block has no predecessors
				if j == rec {
					continue // nor has the recover block
				}
				if out < maxOut && nondetBool() {
					out++
					addEdge(i, j)
				}
			}
		}
	}
	// precondition of buildDomTree: every block is reachable from a root, and the
	// region reachable from the recover block is disjoint from the entry's.
	fromEntry := c14Reach(n, succ, 0, -1)
	root := make([]int, n)
	if withRecover {
		fromRec := c14Reach(n, succ, rec, -1)
		for i := 0; i < n; i++ {
			vassume(fromEntry[i] != fromRec[i])
			if fromRec[i] {
				root[i] = rec
			}
		}
	} else {
		for i := 0; i < n; i++ {
			vassume(fromEntry[i])
		}
	}

	buildDomTree(fn)

	// the definition, computed by path search with one block removed
	want := make([][]bool, n)
	for a := 0; a < n; a++ {
		want[a] = make([]bool, n)
		for b := 0; b < n; b++ {
			if a == b {
				want[a][b] = true
				continue
			}
			r := root[b]
			if root[a] != r {
				continue // different regions: a is on no path to b
			}
			want[a][b] = !c14Reach(n, succ, r, a)[b]
		}
	}

	// symbolic pair: covers all ordered pairs in one query
	a := nondetInt()
	b := nondetInt()
	vassume(a >= 0)
	vassume(a < n)
	vassume(b >= 0)
	vassume(b < n)
	flat := make([]bool, n*n)
	for x := 0; x < n; x++ {
		for y := 0; y < n; y++ {
			flat[x*n+y] = want[x][y]
		}
	}
	vassert(blocks[a].Dominates(blocks[b]) == flat[a*n+b], "Dominates(a,b) iff every path from the region root to b passes through a")

	// consistency of Idom, Dominees and the listings with the relation
	// the listings are the caller's to keep: reordering what one call returned
	// must not disturb the next call
	for _, l := range [][]*BasicBlock{fn.DomPreorder(), fn.DomPostorder()} {
		for i, j := 0, len(l)-1; i < j; i, j = i+1, j-1 {
			l[i], l[j] = l[j], l[i]
		}
	}
	pre := fn.DomPreorder()
	post := fn.DomPostorder()
	preIdx := make([]int, n)
	postIdx := make([]int, n)
	for i := range pre {
		preIdx[pre[i].Index] = i
		postIdx[post[i].Index] = i
	}
	for x := 0; x < n; x++ {
		id := blocks[x].Idom()
		if x == root[x] {
			vassert(id == nil, "a root has no immediate dominator")
		} else {
			vassert(id != nil, "a non-root block has an immediate dominator")
			if id != nil {
				vassert(id.Index != x && want[id.Index][x], "the immediate dominator strictly dominates the block")
				for y := 0; y < n; y++ {
					if y != x && want[y][x] {
						vassert(want[y][id.Index], "every strict dominator dominates the immediate dominator")
					}
				}
				cnt := 0
				for _, c := range id.Dominees() {
					if c == blocks[x] {
						cnt++
					}
				}
				vassert(cnt == 1, "a block is listed exactly once among the dominees of its immediate dominator")
			}
		}
		for _, c := range blocks[x].Dominees() {
			vassert(c.Idom() == blocks[x], "dominee lists only contain immediately dominated blocks")
		}
		for y := 0; y < n; y++ {
			if x != y && want[x][y] {
				vassert(preIdx[x] < preIdx[y], "DomPreorder lists a dominator before the blocks it dominates")
				vassert(postIdx[x] > postIdx[y], "DomPostorder lists a dominator after the blocks it dominates")
			}
		}
	}
	vobserve("idom1", func() int {
		if id := blocks[1].Idom(); id != nil {
			return id.Index
		}
		return -1
	}())
	vreach("end")
}

func Harness_C14_dom_n3()         { c14Dom(3, false, 3) }
func Harness_C14_dom_n4()         { c14Dom(4, false, 4) }
func Harness_C14_dom_n4_recover() { c14Dom(4, true, 4) }
func Harness_C14_dom_n5_recover() { c14Dom(5, true, 2) }
func Harness_C14_dom_n5()         { c14Dom(5, false, 2) }
func Harness_C14_dom_n6()         { c14Dom(6, false, 2) }

func Harness_C14_dom_n8_sampled()  { c14DomSampled(8, 400) }
func Harness_C14_dom_n10_sampled() { c14DomSampled(10, 2000) }
