package dfa

// C13 (lattice laws, MapLattice / DenseMapLattice over a harness element
// lattice): 4-bit sets under union. Keys {0,1,2}; presence enumerated by
// forking, values symbolic and non-Ident (the documented invariant of
// MapLattice: no Ident values are stored).

type c13Bits uint8

type c13Union struct{}

func (c13Union) Ident() c13Bits            { return 0 }
func (c13Union) Equals(a, b c13Bits) bool  { return a == b }
func (c13Union) Merge(a, b c13Bits) c13Bits { return a | b }

type c13ML = MapLattice[int, c13Bits, c13Union]

func c13Map() map[int]c13Bits {
	if nondetBool() {
		return nil
	}
	m := map[int]c13Bits{}
	for k := 0; k < 2; k++ {
		if nondetBool() {
			v := c13Bits(nondetUint8())
			vassume(v <= 15)
			vassume(v != 0)
			m[k] = v
		}
	}
	return m
}

func c13MapAt(m map[int]c13Bits, k int) c13Bits {
	return m[k] // missing = Ident
}

func Harness_C13_maplattice_laws() {
	var ml c13ML
	a, b, c := c13Map(), c13Map(), c13Map()
	ab := ml.Merge(a, b)
	same := true
	for k := 0; k < 2; k++ {
		vassert(c13MapAt(ab, k) == c13MapAt(a, k)|c13MapAt(b, k), "map Merge is the pointwise element merge")
		if c13MapAt(a, k) != c13MapAt(b, k) {
			same = false
		}
	}
	vassert(ml.Equals(a, b) == same, "map Equals is pointwise equality (no Ident values stored)")
	vassert(ml.Equals(ml.Merge(ab, c), ml.Merge(a, ml.Merge(b, c))), "map Merge is associative")
	vassert(ml.Equals(ab, ml.Merge(b, a)), "map Merge is commutative")
	vassert(ml.Equals(ml.Merge(a, a), a), "map Merge is idempotent")
	vassert(ml.Equals(ml.Merge(a, ml.Ident()), a), "map Ident is a right identity")
	vassert(ml.Equals(ml.Merge(ml.Ident(), a), a), "map Ident is a left identity")
	vreach("end")
}

type c13DL = DenseMapLattice[c13Bits, c13Union]

func c13DenseSlice() []c13Bits {
	n := int(nondetUint8())
	vassume(n <= 3)
	n = vconcrete(n)
	if n == 0 {
		return nil
	}
	s := make([]c13Bits, n)
	for i := range s {
		v := c13Bits(nondetUint8())
		vassume(v <= 15)
		s[i] = v
	}
	return s
}

func c13DenseAt(s []c13Bits, k int) c13Bits {
	if k < len(s) {
		return s[k]
	}
	return 0
}

func Harness_C13_denselattice_laws() {
	var d c13DL
	a, b, c := c13DenseSlice(), c13DenseSlice(), c13DenseSlice()
	ab := d.Merge(a, b)
	var diff c13Bits
	for k := 0; k < 4; k++ {
		vassert(c13DenseAt(ab, k) == c13DenseAt(a, k)|c13DenseAt(b, k), "dense Merge is the pointwise element merge")
		diff |= c13DenseAt(a, k) ^ c13DenseAt(b, k)
	}
	vassert(d.Equals(a, b) == (diff == 0), "dense Equals is pointwise equality with missing entries read as Ident")
	vassert(d.Equals(b, a) == (diff == 0), "dense Equals is symmetric")
	vassert(d.Equals(d.Merge(ab, c), d.Merge(a, d.Merge(b, c))), "dense Merge is associative")
	vassert(d.Equals(ab, d.Merge(b, a)), "dense Merge is commutative")
	vassert(d.Equals(d.Merge(a, a), a), "dense Merge is idempotent")
	vassert(d.Equals(d.Merge(a, d.Ident()), a), "dense Ident is a right identity")
	vassert(d.Equals(d.Merge(d.Ident(), a), a), "dense Ident is a left identity")
	vreach("end")
}

// ---- the same laws over an element lattice whose identity is not the zero
// value: 4-bit sets under intersection (Ident = all ones) ----

type c13Inter struct{}

func (c13Inter) Ident() c13Bits             { return 15 }
func (c13Inter) Equals(a, b c13Bits) bool   { return a == b }
func (c13Inter) Merge(a, b c13Bits) c13Bits { return a & b }

type c13MLI = MapLattice[int, c13Bits, c13Inter]

func c13MapI() map[int]c13Bits {
	if nondetBool() {
		return nil
	}
	m := map[int]c13Bits{}
	for k := 0; k < 2; k++ {
		if nondetBool() {
			v := c13Bits(nondetUint8())
			vassume(v < 15) // no Ident values are stored
			m[k] = v
		}
	}
	return m
}

func c13MapIAt(m map[int]c13Bits, k int) c13Bits {
	if v, ok := m[k]; ok {
		return v
	}
	return 15 // missing = Ident
}

func Harness_C13_maplattice_laws_inter() {
	var ml c13MLI
	a, b, c := c13MapI(), c13MapI(), c13MapI()
	ab := ml.Merge(a, b)
	same := true
	for k := 0; k < 2; k++ {
		vassert(c13MapIAt(ab, k) == c13MapIAt(a, k)&c13MapIAt(b, k), "map Merge is the pointwise element merge (missing keys read as Ident)")
		if c13MapIAt(a, k) != c13MapIAt(b, k) {
			same = false
		}
	}
	vassert(ml.Equals(a, b) == same, "map Equals is pointwise equality (no Ident values stored)")
	vassert(ml.Equals(ml.Merge(ab, c), ml.Merge(a, ml.Merge(b, c))), "map Merge is associative")
	vassert(ml.Equals(ab, ml.Merge(b, a)), "map Merge is commutative")
	vassert(ml.Equals(ml.Merge(a, a), a), "map Merge is idempotent")
	vassert(ml.Equals(ml.Merge(a, ml.Ident()), a), "map Ident is a right identity")
	vassert(ml.Equals(ml.Merge(ml.Ident(), a), a), "map Ident is a left identity")
	vreach("end")
}

type c13DLI = DenseMapLattice[c13Bits, c13Inter]

func c13DenseIAt(s []c13Bits, k int) c13Bits {
	if k < len(s) {
		return s[k]
	}
	return 15
}

func Harness_C13_denselattice_laws_inter() {
	var d c13DLI
	a, b, c := c13DenseSlice(), c13DenseSlice(), c13DenseSlice()
	ab := d.Merge(a, b)
	var diff c13Bits
	for k := 0; k < 4; k++ {
		vassert(c13DenseIAt(ab, k) == c13DenseIAt(a, k)&c13DenseIAt(b, k), "dense Merge is the pointwise element merge (missing entries read as Ident)")
		diff |= c13DenseIAt(a, k) ^ c13DenseIAt(b, k)
	}
	vassert(d.Equals(a, b) == (diff == 0), "dense Equals is pointwise equality with missing entries read as Ident")
	vassert(d.Equals(d.Merge(ab, c), d.Merge(a, d.Merge(b, c))), "dense Merge is associative")
	vassert(d.Equals(ab, d.Merge(b, a)), "dense Merge is commutative")
	vassert(d.Equals(d.Merge(a, a), a), "dense Merge is idempotent")
	vassert(d.Equals(d.Merge(a, d.Ident()), a), "dense Ident is a right identity")
	vassert(d.Equals(d.Merge(d.Ident(), a), a), "dense Ident is a left identity")
	vreach("end")
}
