package nilness

// C13 (lattice laws, nilness): the 5-point nilness lattice lifted to
// ValueNilness, and the dense-map lattice over it that the nilness analysis
// instantiates, satisfy associativity, commutativity, idempotence and
// identity, and Merge/Equals agree with the pointwise model.
//
// Real code executed: lattice.Merge/Equals/Ident (latticeMerge table read
// with symbolic indices, kept on one path as ite chains),
// dfa.DenseMapLattice.Merge/Equals/Ident.

import "honnef.co/go/tools/analysis/dfa"

func c13VN() ValueNilness {
	i := nondetUint8()
	o := nondetUint8()
	vassume(i <= 4)
	vassume(o <= 4)
	return ValueNilness{Inner: Nilness(i), Outer: Nilness(o)}
}

func Harness_C13_nilness_laws() {
	var l lattice
	a, b, c := c13VN(), c13VN(), c13VN()
	vassert(l.Equals(l.Merge(l.Merge(a, b), c), l.Merge(a, l.Merge(b, c))), "nilness Merge is associative")
	vassert(l.Equals(l.Merge(a, b), l.Merge(b, a)), "nilness Merge is commutative")
	vassert(l.Equals(l.Merge(a, a), a), "nilness Merge is idempotent")
	vassert(l.Equals(l.Merge(a, l.Ident()), a), "Ident is a right identity")
	vassert(l.Equals(l.Merge(l.Ident(), a), a), "Ident is a left identity")
	// Equals is equality of both components
	vassert(l.Equals(a, b) == (a.Inner == b.Inner && a.Outer == b.Outer), "Equals is component-wise equality")
	// Merge is an upper bound in the order induced by Merge: a ⊑ Merge(a,b)
	vassert(l.Equals(l.Merge(a, l.Merge(a, b)), l.Merge(a, b)), "Merge(a,b) is an upper bound of a")
	m := l.Merge(a, b)
	vassert(m.Inner <= 4, "Merge stays inside the lattice (Inner)")
	vassert(m.Outer <= 4, "Merge stays inside the lattice (Outer)")
	vreach("end")
}

type c13Dense = dfa.DenseMapLattice[ValueNilness, lattice]

func c13Slice() []ValueNilness {
	n := int(nondetUint8())
	vassume(n <= 2)
	n = vconcrete(n)
	if n == 0 {
		if nondetBool() {
			return nil
		}
		return []ValueNilness{}
	}
	s := make([]ValueNilness, n)
	for i := range s {
		s[i] = c13VN()
	}
	return s
}

func c13At(s []ValueNilness, k int) ValueNilness {
	if k < len(s) {
		return s[k]
	}
	return ValueNilness{}
}

// c13Same is the pointwise model of equality (missing entries are Ident).
func c13Same(a, b []ValueNilness) bool {
	same := true
	for k := 0; k < 3; k++ {
		if c13At(a, k) != c13At(b, k) {
			same = false
		}
	}
	return same
}

func Harness_C13_dense_nilness_laws() {
	var d c13Dense
	var l lattice
	a, b, c := c13Slice(), c13Slice(), c13Slice()
	ab := d.Merge(a, b)
	for k := 0; k < 3; k++ {
		vassert(c13At(ab, k) == l.Merge(c13At(a, k), c13At(b, k)), "dense Merge is the pointwise element merge")
	}
	vassert(d.Equals(a, b) == c13Same(a, b), "dense Equals is pointwise equality with missing entries read as Ident")
	vassert(d.Equals(b, a) == d.Equals(a, b), "dense Equals is symmetric")
	vassert(d.Equals(d.Merge(ab, c), d.Merge(a, d.Merge(b, c))), "dense Merge is associative")
	vassert(d.Equals(ab, d.Merge(b, a)), "dense Merge is commutative")
	vassert(d.Equals(d.Merge(a, a), a), "dense Merge is idempotent")
	vassert(d.Equals(d.Merge(a, d.Ident()), a), "dense Ident is a right identity")
	vassert(d.Equals(d.Merge(d.Ident(), a), a), "dense Ident is a left identity")
	vreach("end")
}
