package dense

// C13 (dense.Forward, whole runs): for every directed graph with N nodes
// (adjacency enumerated by forking, self-loops, cycles, unreachable and
// rootless regions included) and every monotone gen/kill transfer function
// and entry facts (symbolic W-bit sets under union), the real Forward
// terminates with the least fixpoint:
//   - a node without predecessors keeps its entry fact; every other node's
//     input is the merge of its incoming edge facts,
//   - every edge fact is the transfer of its source's input,
//   - the solution is below every (symbolic) pre-fixpoint.
// Real code executed: Forward, fwdBuilder.propagate/merge, nodeHeap (with
// container/heap), graph.Compact, graph.NewIndex, graph.ReversePostorder,
// Analysis.In/Edge (slices.BinarySearchFunc), range-over-func iterators.

import (
	"iter"
	"slices"
)

type c13Bits uint8

type c13Union struct{}

func (c13Union) Ident() c13Bits             { return 0 }
func (c13Union) Equals(a, b c13Bits) bool   { return a == b }
func (c13Union) Merge(a, b c13Bits) c13Bits { return a | b }

type c13Graph struct {
	n     int
	edges [][]int
}

func (g *c13Graph) NumNodes() int { return g.n }
func (g *c13Graph) Nodes() iter.Seq[int] {
	return func(yield func(int) bool) {
		for i := range g.n {
			if !yield(i) {
				break
			}
		}
	}
}
func (g *c13Graph) Out(nid int) iter.Seq[int] { return slices.Values(g.edges[nid]) }

func c13Fact(w uint) c13Bits {
	v := c13Bits(nondetUint8())
	vassume(v < 1<<w)
	return v
}

func c13Forward(n int, w uint, selfLoops, kill bool, nEntry int) {
	g := &c13Graph{n: n, edges: make([][]int, n)}
	gen := make([][]c13Bits, n)
	mask := make([][]c13Bits, n)
	hasPred := make([]bool, n)
	for i := 0; i < n; i++ {
		gen[i] = make([]c13Bits, n)
		mask[i] = make([]c13Bits, n)
		for j := 0; j < n; j++ {
			if i == j && !selfLoops {
				continue
			}
			if nondetBool() {
				g.edges[i] = append(g.edges[i], j)
				hasPred[j] = true
				gen[i][j] = c13Fact(w)
				mask[i][j] = 1<<w - 1
				if kill {
					mask[i][j] = c13Fact(w)
				}
			}
		}
	}
	entry := map[int]c13Bits{}
	entryOf := make([]c13Bits, n)
	for i := 0; i < nEntry; i++ {
		if nondetBool() {
			entryOf[i] = c13Fact(w)
			entry[i] = entryOf[i]
		}
	}
	transfer := func(from, to int, fact c13Bits) c13Bits {
		return gen[from][to] | fact&mask[from][to]
	}

	a := Forward[c13Union](g, entry, transfer)

	// fixpoint equations, through the public accessors
	for b := 0; b < n; b++ {
		if !hasPred[b] {
			vassert(a.In(b) == entryOf[b], "a node without predecessors keeps its entry fact")
			continue
		}
		var in c13Bits
		for p := 0; p < n; p++ {
			for _, s := range g.edges[p] {
				if s == b {
					in |= a.Edge(p, b)
				}
			}
		}
		vassert(a.In(b) == in, "a node's input is the merge of its incoming edge facts")
	}
	for p := 0; p < n; p++ {
		for _, s := range g.edges[p] {
			vassert(a.Edge(p, s) == transfer(p, s, a.In(p)), "an edge fact is the transfer of its source's input")
		}
	}
	// leastness against an arbitrary pre-fixpoint
	pre := make([]c13Bits, n)
	var bad c13Bits
	for b := 0; b < n; b++ {
		pre[b] = c13Fact(w)
	}
	for b := 0; b < n; b++ {
		if !hasPred[b] {
			bad |= entryOf[b] &^ pre[b]
		}
		for _, s := range g.edges[b] {
			bad |= transfer(b, s, pre[b]) &^ pre[s]
		}
	}
	vassume(bad == 0)
	for b := 0; b < n; b++ {
		vassert(a.In(b)&^pre[b] == 0, "no smaller solution exists: the result is below every pre-fixpoint")
	}
	vobserve("in0", a.In(0))
	vreach("end")
}

func Harness_C13_dense_forward_n2()      { c13Forward(2, 2, true, true, 2) }
func Harness_C13_dense_forward_n3_gen()  { c13Forward(3, 1, false, false, 3) }
func Harness_C13_dense_forward_n3_kill() { c13Forward(3, 1, false, true, 1) }
func Harness_C13_dense_forward_n3_self() { c13Forward(3, 1, true, false, 2) }
