package sparse

// C13 (sparse.Forward, per-value solver): for every small def-use graph
// (binary operations and phis, cycles through phis included, in every
// instruction order) and every monotone transfer function with symbolic
// coefficients over 2-bit sets under union, with symbolic states set up
// front for the parameters, the real Forward terminates with the least
// solution: a phi's state is the merge of its edges' states, every other
// value's state is its transfer, and the result is below every symbolic
// pre-fixpoint.
// Real code executed: Forward, Instance.Forward/Value/Set (worklist map,
// referrer re-enqueueing).

import "honnef.co/go/tools/go/ir"

type c13Bits uint8

type c13Union struct{}

func (c13Union) Ident() c13Bits             { return 0 }
func (c13Union) Equals(a, b c13Bits) bool   { return a == b }
func (c13Union) Merge(a, b c13Bits) c13Bits { return a | b }

func c13Fact() c13Bits {
	v := c13Bits(nondetUint8())
	vassume(v < 4)
	return v
}

func c13Use(user ir.Instruction, v ir.Value) {
	if r := v.Referrers(); r != nil {
		*r = append(*r, user)
	}
}

func c13Sparse(k int) {
	p0, p1 := &ir.Parameter{}, &ir.Parameter{}
	vals := []ir.Value{p0, p1}
	instrs := make([]ir.Instruction, k)
	isPhi := make([]bool, k)
	// create the nodes first so that phis can refer to later instructions
	for i := 0; i < k; i++ {
		if nondetBool() {
			isPhi[i] = true
			instrs[i] = &ir.Phi{}
		} else {
			instrs[i] = &ir.BinOp{}
		}
	}
	ops := make([][2]int, k) // operand indices into all = [p0, p1, v0..]
	all := append([]ir.Value{}, vals...)
	for i := 0; i < k; i++ {
		all = append(all, instrs[i].(ir.Value))
	}
	for i := 0; i < k; i++ {
		if isPhi[i] {
			a, b := vchoose(len(all)), vchoose(len(all))
			ops[i] = [2]int{a, b}
			phi := instrs[i].(*ir.Phi)
			phi.Edges = []ir.Value{all[a], all[b]}
			c13Use(phi, all[a])
			c13Use(phi, all[b])
		} else {
			a := vchoose(2 + i) // a parameter or an earlier instruction
			ops[i] = [2]int{a, 1}
			bin := instrs[i].(*ir.BinOp)
			bin.X, bin.Y = all[a], p1
			c13Use(bin, all[a])
			c13Use(bin, p1)
		}
	}
	// instruction order inside the block (the worklist is seeded in this order)
	order := make([]ir.Instruction, 0, k)
	rot := vchoose(k)
	for i := 0; i < k; i++ {
		order = append(order, instrs[(i+rot)%k])
	}
	if nondetBool() {
		for i, j := 0, len(order)-1; i < j; i, j = i+1, j-1 {
			order[i], order[j] = order[j], order[i]
		}
	}
	fn := &ir.Function{Blocks: []*ir.BasicBlock{{Instrs: order}}}

	gen := make([]c13Bits, k)
	mx := make([]c13Bits, k)
	my := make([]c13Bits, k)
	for i := 0; i < k; i++ {
		if !isPhi[i] {
			gen[i], mx[i], my[i] = c13Fact(), c13Fact(), c13Fact()
		}
	}
	index := func(ins ir.Instruction) int {
		for i := range instrs {
			if instrs[i] == ins {
				return i
			}
		}
		return -1
	}
	s0, s1 := c13Fact(), c13Fact()
	transfer := func(in *Instance[c13Union, c13Bits], instr ir.Instruction) []Mapping[c13Bits] {
		i := index(instr)
		bin := instr.(*ir.BinOp)
		st := gen[i] | in.Value(bin.X)&mx[i] | in.Value(bin.Y)&my[i]
		return []Mapping[c13Bits]{{Value: bin, State: st}}
	}
	ins := &Instance[c13Union, c13Bits]{Transfer: transfer, Mapping: map[ir.Value]Mapping[c13Bits]{}}
	ins.Set(p0, s0)
	ins.Set(p1, s1)
	ins.Forward(fn)

	state := func(j int) c13Bits { return ins.Value(all[j]) }
	vassert(state(0) == s0 && state(1) == s1, "states set up front for parameters are kept")
	for i := 0; i < k; i++ {
		got := state(2 + i)
		if isPhi[i] {
			vassert(got == state(ops[i][0])|state(ops[i][1]), "a phi's state is the merge of its edges' states")
		} else {
			vassert(got == gen[i]|state(ops[i][0])&mx[i]|state(1)&my[i], "a value's state is the transfer of its operands' states")
		}
	}
	// leastness: any pre-fixpoint that is above the parameter states is above the result
	pre := make([]c13Bits, 2+k)
	var bad c13Bits
	for j := range pre {
		pre[j] = c13Fact()
	}
	bad |= s0 &^ pre[0]
	bad |= s1 &^ pre[1]
	for i := 0; i < k; i++ {
		var want c13Bits
		if isPhi[i] {
			want = pre[ops[i][0]] | pre[ops[i][1]]
		} else {
			want = gen[i] | pre[ops[i][0]]&mx[i] | pre[1]&my[i]
		}
		bad |= want &^ pre[2+i]
	}
	vassume(bad == 0)
	for j := range pre {
		vassert(state(j)&^pre[j] == 0, "no smaller solution exists: the result is below every pre-fixpoint")
	}
	vobserve("v0", state(2))
	vreach("end")
}

func Harness_C13_sparse_forward_k2() { c13Sparse(2) }
func Harness_C13_sparse_forward_k3() { c13Sparse(3) }
