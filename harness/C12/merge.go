package lintcmd

// C12: merging runs follows any/all semantics, order-independently, is
// idempotent, and annotates each problem with exactly the build names under
// which it occurred.
//
// Real code executed: runFromLintResult, mergeRuns, diagnostic.descriptor,
// diagnostic.equal, Command.printDiagnostics (sort.Slice -> real
// pdqsort_func, de-duplication, build-name union, exit status),
// textFormatter.Format, diagnostic.String, relativePositionString.
// Enumerated by forking (every fork solver-checked): per run and problem
// whether the run reports it, per run and file whether the run checked the
// file, merge strategy per problem, which single descriptor field
// distinguishes the second problem from the first, build names, the
// permutation / duplicated run.

import (
	"fmt"
	"go/token"
	"sort"
	"strings"

	"honnef.co/go/tools/analysis/lint"
)

type c12Desc struct {
	file             string
	line, col, eline int
	msg, cat         string
	strat            lint.MergeStrategy
}

func c12Choose(n int) int { return vchoose(n) }

func c12Diag(d c12Desc, build string) diagnostic {
	var x diagnostic
	x.Position = token.Position{Filename: d.file, Line: d.line, Column: d.col}
	x.End = token.Position{Filename: d.file, Line: d.eline, Column: d.col + 1}
	x.Message = d.msg
	x.Category = d.cat
	x.MergeIf = d.strat
	x.BuildName = build
	return x
}

type c12Scenario struct {
	descs   []c12Desc
	names   []string   // build name per run
	has     [][]bool   // has[r][k]
	checked [][2]bool  // checked[r][file index]
}

func c12Strat() lint.MergeStrategy {
	if nondetBool() {
		return lint.MergeIfAll
	}
	return lint.MergeIfAny
}

var c12Files = [2]string{"a.go", "b.go"}

func c12FileIdx(f string) int {
	if f == "a.go" {
		return 0
	}
	return 1
}

// c12Make builds a scenario with nRuns runs and one or two problems.
// variations: which descriptor fields may distinguish problem 1 from problem 0.
func c12Make(nRuns int, variations []int, named bool) *c12Scenario {
	s := &c12Scenario{}
	base := c12Desc{file: "a.go", line: 3, col: 5, eline: 3, msg: "m", cat: "SA1000", strat: c12Strat()}
	s.descs = append(s.descs, base)
	if len(variations) > 0 {
		d := base
		d.strat = c12Strat()
		switch variations[c12Choose(len(variations))] {
		case 0:
			d.msg = "n"
		case 1:
			d.line = 4
		case 2:
			d.eline = 4
		case 3:
			d.cat = "SA1001"
		case 4:
			d.file = "b.go"
		case 5:
			d.col = 6
		}
		s.descs = append(s.descs, d)
	}
	usesB := false
	for _, d := range s.descs {
		if d.file == "b.go" {
			usesB = true
		}
	}
	for r := 0; r < nRuns; r++ {
		name := ""
		if named {
			name = "linux"
			if nondetBool() {
				name = "windows"
			}
		}
		s.names = append(s.names, name)
		var ck [2]bool
		ck[0] = nondetBool()
		if usesB {
			ck[1] = nondetBool()
		}
		s.checked = append(s.checked, ck)
		hs := make([]bool, len(s.descs))
		for k := range hs {
			hs[k] = nondetBool()
		}
		s.has = append(s.has, hs)
	}
	return s
}

// runs builds the real run values through runFromLintResult, in the given order.
func (s *c12Scenario) runs(order []int) []run {
	var out []run
	for _, r := range order {
		var res lintResult
		for fi, ck := range s.checked[r] {
			if ck {
				res.CheckedFiles = append(res.CheckedFiles, c12Files[fi])
			}
		}
		for k, d := range s.descs {
			if s.has[r][k] {
				res.Diagnostics = append(res.Diagnostics, c12Diag(d, s.names[r]))
			}
		}
		out = append(out, runFromLintResult(res))
	}
	return out
}

func c12Print(runs []run) string {
	diags := mergeRuns(runs)
	cmd := &Command{}
	cmd.flags.formatter = "text"
	vcapture()
	cmd.printDiagnostics(nil, diags)
	return vcaptured()
}

// expected computes the documented result as a sorted list of output lines.
func (s *c12Scenario) expected() []string {
	var lines []string
	for k, d := range s.descs {
		occurs := 0
		allAgree := true
		var builds []string
		for r := range s.has {
			if s.has[r][k] {
				occurs++
				dup := false
				for _, b := range builds {
					if b == s.names[r] {
						dup = true
					}
				}
				if !dup {
					builds = append(builds, s.names[r])
				}
			} else if s.checked[r][c12FileIdx(d.file)] {
				allAgree = false
			}
		}
		if occurs == 0 {
			continue
		}
		if d.strat == lint.MergeIfAll && !allAgree {
			continue
		}
		sort.Strings(builds)
		b := strings.Join(builds, ",")
		if b != "" {
			lines = append(lines, fmt.Sprintf("%s:%d:%d: %s [%s] (%s)", d.file, d.line, d.col, d.msg, b, d.cat))
		} else {
			lines = append(lines, fmt.Sprintf("%s:%d:%d: %s (%s)", d.file, d.line, d.col, d.msg, d.cat))
		}
	}
	sort.Strings(lines)
	return lines
}

func c12Lines(out string) []string {
	if out == "" {
		return nil
	}
	lines := strings.Split(strings.TrimSuffix(out, "\n"), "\n")
	sort.Strings(lines)
	return lines
}

func c12Identity(n int) []int {
	o := make([]int, n)
	for i := range o {
		o[i] = i
	}
	return o
}

func c12Semantics(nRuns int, variations []int, named bool) {
	s := c12Make(nRuns, variations, named)
	out := c12Print(s.runs(c12Identity(nRuns)))
	got := c12Lines(out)
	want := s.expected()
	vobserve("out", out)
	vassert(len(got) == len(want), "merged result has exactly the problems the any/all rule keeps (count)")
	if len(got) == len(want) {
		for i := range got {
			vassert(got[i] == want[i], "merged problem and its build-name annotation are as documented")
		}
	}
	vreach("end")
}

// order: the printed result is byte-identical under the two generators of
// the permutation group of the runs (adjacent transpositions).
func c12Order(nRuns int, variations []int, named bool) {
	s := c12Make(nRuns, variations, named)
	id := c12Identity(nRuns)
	out := c12Print(s.runs(id))
	i := c12Choose(nRuns - 1)
	perm := c12Identity(nRuns)
	perm[i], perm[i+1] = perm[i+1], perm[i]
	out2 := c12Print(s.runs(perm))
	vobserve("out", out)
	vassert(out == out2, "result does not depend on the order of the runs")
	vreach("end")
}

// idempotence: repeating one of the runs (at any position) changes nothing.
func c12Repeat(nRuns int, variations []int, named bool) {
	s := c12Make(nRuns, variations, named)
	id := c12Identity(nRuns)
	out := c12Print(s.runs(id))
	dup := c12Choose(nRuns)
	at := c12Choose(nRuns + 1)
	var order []int
	for i := 0; i <= nRuns; i++ {
		if i == at {
			order = append(order, dup)
		}
		if i < nRuns {
			order = append(order, i)
		}
	}
	out2 := c12Print(s.runs(order))
	vobserve("out", out)
	vassert(out == out2, "repeating a run does not change the result")
	vreach("end")
}

var c12AllVariations = []int{0, 1, 2, 3, 4, 5}

func Harness_C12_semantics_r2()       { c12Semantics(2, c12AllVariations, false) }
func Harness_C12_semantics_r3()       { c12Semantics(3, c12AllVariations, false) }
func Harness_C12_semantics_named_r2() { c12Semantics(2, []int{0, 2, 3}, true) }
func Harness_C12_semantics_named_r3() { c12Semantics(3, []int{0, 2, 3}, true) }
func Harness_C12_single_named_r3()    { c12Semantics(3, nil, true) }
func Harness_C12_order_r3()           { c12Order(3, []int{0, 2, 4}, false) }
func Harness_C12_order_named_r3()     { c12Order(3, []int{2, 3}, true) }
func Harness_C12_repeat_r2()          { c12Repeat(2, []int{0, 2, 4}, true) }
func Harness_C12_repeat_r3()          { c12Repeat(3, nil, true) }
func Harness_C12_order_end_r3() { c12Order(3, []int{2}, false) }

// payload: the same problem arrives from two differently named builds with
// different severities (one build ignores it through a directive); which copy
// represents the merged problem must not depend on the order of the runs or
// on a repeated run.
func Harness_C12_order_payload_r2() {
	d := c12Desc{file: "a.go", line: 3, col: 5, eline: 3, msg: "m", cat: "SA1000", strat: c12Strat()}
	names := []string{"linux", "windows"}
	sevs := []severity{severityError, severityWarning, severityIgnored}
	var base []run
	for r := 0; r < 2; r++ {
		var res lintResult
		res.CheckedFiles = []string{"a.go"}
		x := c12Diag(d, names[r])
		x.Severity = sevs[c12Choose(3)]
		res.Diagnostics = []diagnostic{x}
		base = append(base, runFromLintResult(res))
	}
	out := c12Print([]run{base[0], base[1]})
	out2 := c12Print([]run{base[1], base[0]})
	vobserve("out", out)
	vassert(out == out2, "result does not depend on the order of the runs (same problem, different severities)")
	k := c12Choose(2)
	out3 := c12Print([]run{base[0], base[1], base[k]})
	out4 := c12Print([]run{base[k], base[0], base[1]})
	vassert(out == out3 && out == out4, "repeating a run does not change the result (same problem, different severities)")
	vreach("end")
}
