package lintcmd

// C12: the checked-file set and the merge strategy that (*linter).lint hands
// to the merge (a run vetoes an 'all' problem only for files it checked; the
// strategy of a problem is the one its check documents). Executes the result
// loop of the real lint with the runner stubbed; see ../C11/lintloop.go.
func Harness_C12_lint_checked_files() { c11LintLoop(2) }
