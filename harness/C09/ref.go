package pattern

// C09: after a successful match the visible bindings are exactly those
// established on the successful path (nothing from a failed Or alternative
// or from a Not operand), repeated names bind structurally equal subtrees,
// and the explicit (Binding "x" p) spelling equals the x@p shorthand.
//
// Real code executed: Matcher.Match, match, matchNodeAST, matchAST, the Match
// methods of Binding / Or / Not / List / String / Token / Nil / Any,
// Matcher.set/push/pop/merge (package reflect is modelled by the engine).
// Patterns are produced by the real parser (natively) and rebuilt as Go
// values, including the unexported binding index.
// Oracle: c09Ref, a purely functional matcher over the same inputs.

import (
	"go/parser"
	"go/types"
	"go/ast"
	"go/token"
)

// c09B rebuilds a Binding with the index the real parser assigned.
func c09B(name string, idx int, node Node) Binding {
	b := Binding{Name: name, Node: node}
	vsetfield(&b, "idx", idx)
	return b
}

// ---- syntax trees with symbolic leaves ----

// c09Name returns "a" or "b" (one symbolic byte).
func c09Name() string {
	s := nondetString(1)
	vassume(s[0] == 'a' || s[0] == 'b')
	return s
}

// c09Lit returns an INT literal "1" or "2".
func c09Lit() *ast.BasicLit {
	s := nondetString(1)
	vassume(s[0] == '1' || s[0] == '2')
	return &ast.BasicLit{Kind: token.INT, Value: s}
}

func c09Id() *ast.Ident { return &ast.Ident{Name: c09Name()} }

func c09Op() token.Token {
	if nondetBool() {
		return token.ADD
	}
	return token.MUL
}

func c09Bin(x ast.Expr, op token.Token, y ast.Expr) *ast.BinaryExpr {
	return &ast.BinaryExpr{X: x, Op: op, Y: y}
}

func c09Call(f ast.Expr, args ...ast.Expr) *ast.CallExpr { return &ast.CallExpr{Fun: f, Args: args} }

// c09Tree builds the k-th syntax-tree shape.
func c09Tree(k int) ast.Expr {
	switch k {
	case 0: // x + f(1)
		return c09Bin(c09Id(), c09Op(), c09Call(c09Id(), c09Lit()))
	case 1: // x + f(y)
		return c09Bin(c09Id(), c09Op(), c09Call(c09Id(), c09Id()))
	case 2: // (p + 1) + r
		return c09Bin(&ast.ParenExpr{X: c09Bin(c09Id(), c09Op(), c09Lit())}, c09Op(), c09Id())
	case 3: // x + y*2
		return c09Bin(c09Id(), token.ADD, c09Bin(c09Id(), token.MUL, c09Lit()))
	case 4: // f(p, q)
		return c09Call(c09Id(), c09Id(), c09Id())
	case 5: // -g(1)
		return &ast.UnaryExpr{Op: token.SUB, X: c09Call(c09Id(), c09Lit())}
	case 6: // -5
		return &ast.UnaryExpr{Op: token.SUB, X: c09Lit()}
	case 7: // x + 1
		return c09Bin(c09Id(), token.ADD, c09Lit())
	case 8: // 1 + 1
		return c09Bin(c09Lit(), token.ADD, c09Lit())
	case 9: // f(g(1, p, 2))
		return c09Call(c09Id(), c09Call(c09Id(), c09Lit(), c09Id(), c09Lit()))
	case 10: // (p + q) + r
		return c09Bin(&ast.ParenExpr{X: c09Bin(c09Id(), c09Op(), c09Id())}, c09Op(), c09Id())
	case 11: // -(p * 1)
		return &ast.UnaryExpr{Op: token.SUB, X: &ast.ParenExpr{X: c09Bin(c09Id(), token.MUL, c09Lit())}}
	case 12: // s[:n]  (absent low bound)
		return &ast.SliceExpr{X: c09Id(), High: c09Id()}
	case 13: // s[n:m]
		return &ast.SliceExpr{X: c09Id(), Low: c09Id(), High: c09Id()}
	case 14: // s[n:]  (absent high bound)
		return &ast.SliceExpr{X: c09Id(), Low: c09Id()}
	case 15: // s[:]
		return &ast.SliceExpr{X: c09Id()}
	case 16: // p + f(q, r)
		return c09Bin(c09Id(), token.ADD, c09Call(c09Id(), c09Id(), c09Id()))
	case 17: // f(p, q) + r
		return c09Bin(c09Call(c09Id(), c09Id(), c09Id()), token.ADD, c09Id())
	case 18: // f(p) + q
		return c09Bin(c09Call(c09Id(), c09Id()), token.ADD, c09Id())
	}
	return c09Id()
}

const c09NTrees = 19

// ---- structural equality of matched values ----

func c09Eq(a, b any) bool {
	if x, ok := a.(types.Object); ok {
		y, ok := b.(types.Object)
		return ok && x == y
	}
	// a list of exactly one element and that element alone are the same
	// subtree (an argument list [x] recalled at a single-node position)
	if xs, ok := a.([]ast.Expr); ok && len(xs) == 1 {
		if _, isList := b.([]ast.Expr); !isList {
			return c09Eq(xs[0], b)
		}
	}
	if ys, ok := b.([]ast.Expr); ok && len(ys) == 1 {
		if _, isList := a.([]ast.Expr); !isList {
			return c09Eq(a, ys[0])
		}
	}
	switch x := a.(type) {
	case nil:
		return b == nil
	case string:
		y, ok := b.(string)
		return ok && x == y
	case token.Token:
		y, ok := b.(token.Token)
		return ok && x == y
	case *ast.Ident:
		y, ok := b.(*ast.Ident)
		return ok && (x == nil) == (y == nil) && (x == nil || x.Name == y.Name)
	case *ast.BasicLit:
		y, ok := b.(*ast.BasicLit)
		return ok && (x == nil) == (y == nil) && (x == nil || (x.Kind == y.Kind && x.Value == y.Value))
	case *ast.ParenExpr:
		y, ok := b.(*ast.ParenExpr)
		return ok && c09Eq(x.X, y.X)
	case *ast.UnaryExpr:
		y, ok := b.(*ast.UnaryExpr)
		return ok && x.Op == y.Op && c09Eq(x.X, y.X)
	case *ast.BinaryExpr:
		y, ok := b.(*ast.BinaryExpr)
		return ok && x.Op == y.Op && c09Eq(x.X, y.X) && c09Eq(x.Y, y.Y)
	case *ast.CallExpr:
		y, ok := b.(*ast.CallExpr)
		return ok && c09Eq(x.Fun, y.Fun) && c09Eq(x.Args, y.Args)
	case *ast.SliceExpr:
		y, ok := b.(*ast.SliceExpr)
		return ok && x.Slice3 == y.Slice3 && c09Eq(x.X, y.X) && c09Eq(x.Low, y.Low) && c09Eq(x.High, y.High) && c09Eq(x.Max, y.Max)
	case []ast.Expr:
		y, ok := b.([]ast.Expr)
		if !ok || len(x) != len(y) {
			return false
		}
		for i := range x {
			if !c09Eq(x[i], y[i]) {
				return false
			}
		}
		return true
	case ast.Expr:
		return false
	}
	return false
}

// ---- the reference matcher ----

type c09Env struct {
	names []string
	vals  []any
}

func (e c09Env) get(name string) (any, bool) {
	for i, n := range e.names {
		if n == name {
			return e.vals[i], true
		}
	}
	return nil, false
}

func (e c09Env) with(name string, v any) c09Env {
	return c09Env{append(append([]string(nil), e.names...), name), append(append([]any(nil), e.vals...), v)}
}

// c09Iface turns an absent child (nil ast.Expr) into an untyped nil.
func c09Iface(e ast.Expr) any {
	if e == nil {
		return nil
	}
	return e
}

func c09Unparen(n any) any {
	for {
		p, ok := n.(*ast.ParenExpr)
		if !ok {
			return n
		}
		n = p.X
	}
}

// c09Ref matches pattern node p against n starting from env. It returns
// the extended bindings, the matched value and the verdict. Failed
// alternatives and negated operands leave no trace because env is a value.
func c09Ref(p Node, n any, env c09Env) (c09Env, any, bool) {
	n = c09Unparen(n)
	switch p := p.(type) {
	case Any:
		return env, n, true
	case Nil:
		switch v := n.(type) {
		case nil:
			return env, nil, true
		case []ast.Expr:
			return env, nil, v == nil
		case *ast.BasicLit:
			return env, nil, v == nil
		case *ast.Ident:
			return env, nil, v == nil
		}
		return env, nil, false
	case Binding:
		if _, isNil := p.Node.(Nil); p.Node == nil || isNil {
			if v, ok := env.get(p.Name); ok {
				return env, n, c09Eq(c09Unparen(v), n)
			}
			return env.with(p.Name, n), n, true
		}
		e2, v, ok := c09Ref(p.Node, n, env)
		if !ok {
			return env, nil, false
		}
		return e2.with(p.Name, v), v, true
	case Or:
		for _, alt := range p.Nodes {
			if e2, v, ok := c09Ref(alt, n, env); ok {
				return e2, v, true
			}
		}
		return env, nil, false
	case Not:
		if _, _, ok := c09Ref(p.Node, n, env); ok {
			return env, nil, false
		}
		return env, n, true
	case String:
		switch v := n.(type) {
		case string:
			return env, v, v == string(p)
		case token.Token:
			tok, ok := tokensByString[string(p)]
			return env, v, ok && token.Token(tok) == v
		}
		return env, nil, false
	case Token:
		v, ok := n.(token.Token)
		return env, v, ok && token.Token(p) == v
	case List:
		xs, ok := n.([]ast.Expr)
		if !ok {
			return env, nil, false
		}
		if p.Head == nil {
			return env, n, len(xs) == 0
		}
		if _, isNil := p.Head.(Nil); isNil {
			return env, n, len(xs) == 0
		}
		if len(xs) == 0 {
			return env, nil, false
		}
		e1, _, ok1 := c09Ref(p.Head, xs[0], env)
		if !ok1 {
			return env, nil, false
		}
		e2, _, ok2 := c09Ref(p.Tail, xs[1:], e1)
		if !ok2 {
			return env, nil, false
		}
		return e2, n, true
	case Ident:
		v, ok := n.(*ast.Ident)
		if !ok || v == nil {
			return env, nil, false
		}
		e1, _, ok := c09Ref(p.Name, v.Name, env)
		return e1, n, ok
	case Builtin:
		// an identifier that denotes the predeclared object of its name
		v, ok := n.(*ast.Ident)
		if !ok || v == nil || c09Info == nil {
			return env, nil, false
		}
		e1, _, ok := c09Ref(p.Name, v.Name, env)
		if !ok || c09Info.ObjectOf(v) != types.Universe.Lookup(v.Name) {
			return env, nil, false
		}
		return e1, n, true
	case Object:
		// an identifier; the value is the object it denotes
		v, ok := n.(*ast.Ident)
		if !ok || v == nil || c09Info == nil {
			return env, nil, false
		}
		e1, _, ok := c09Ref(p.Name, v.Name, env)
		if !ok {
			return env, nil, false
		}
		return e1, c09Info.ObjectOf(v), true
	case BasicLit:
		v, ok := n.(*ast.BasicLit)
		if !ok || v == nil {
			return env, nil, false
		}
		e1, _, ok1 := c09Ref(p.Kind, v.Kind, env)
		if !ok1 {
			return env, nil, false
		}
		e2, _, ok2 := c09Ref(p.Value, v.Value, e1)
		return e2, n, ok2
	case UnaryExpr:
		v, ok := n.(*ast.UnaryExpr)
		if !ok {
			return env, nil, false
		}
		e1, _, ok1 := c09Ref(p.Op, v.Op, env)
		if !ok1 {
			return env, nil, false
		}
		e2, _, ok2 := c09Ref(p.X, v.X, e1)
		return e2, n, ok2
	case BinaryExpr:
		v, ok := n.(*ast.BinaryExpr)
		if !ok {
			return env, nil, false
		}
		e1, _, ok1 := c09Ref(p.X, v.X, env)
		if !ok1 {
			return env, nil, false
		}
		e2, _, ok2 := c09Ref(p.Op, v.Op, e1)
		if !ok2 {
			return env, nil, false
		}
		e3, _, ok3 := c09Ref(p.Y, v.Y, e2)
		return e3, n, ok3
	case SliceExpr:
		v, ok := n.(*ast.SliceExpr)
		if !ok {
			return env, nil, false
		}
		e := env
		for i, f := range []Node{p.X, p.Low, p.High, p.Max} {
			var child any
			switch i {
			case 0:
				child = c09Iface(v.X)
			case 1:
				child = c09Iface(v.Low)
			case 2:
				child = c09Iface(v.High)
			case 3:
				child = c09Iface(v.Max)
			}
			e2, _, ok := c09Ref(f, child, e)
			if !ok {
				return env, nil, false
			}
			e = e2
		}
		return e, n, true
	case CallExpr:
		v, ok := n.(*ast.CallExpr)
		if !ok {
			return env, nil, false
		}
		e1, _, ok1 := c09Ref(p.Fun, v.Fun, env)
		if !ok1 {
			return env, nil, false
		}
		e2, _, ok2 := c09Ref(p.Args, v.Args, e1)
		return e2, n, ok2
	}
	panic("c09Ref: pattern node outside the reference matcher")
}

// c09Check runs the real matcher and the reference on the same inputs.
// c09Info is the type information of the tree being matched (typed harnesses only).
var c09Info *types.Info

func c09Check(label string, p Pattern, tree ast.Expr) {
	m := &Matcher{TypesInfo: c09Info}
	ok := m.Match(p, tree)
	env, _, rok := c09Ref(p.Root, tree, c09Env{})
	vobserve(label, ok)
	vassert(ok == rok, label+": verdict differs from the reference matcher")
	if ok && rok {
		vassert(len(m.State) == len(env.names), label+": a binding is visible that was not established on the successful path, or one is missing")
		for i, name := range env.names {
			v, bound := m.State[name]
			vassert(bound, label+": a binding established on the successful path is missing")
			if bound {
				vassert(c09Eq(c09Unparen(v), c09Unparen(env.vals[i])), label+": a name is bound to a different subtree than on the successful path")
			}
		}
	}
}

// c09Same: two spellings of the same pattern behave identically.
func c09Same(label string, p, q Pattern, tree ast.Expr) {
	m1, ok1 := Match(p, tree)
	m2, ok2 := Match(q, tree)
	vassert(ok1 == ok2, label+": name@pattern and (Binding \"name\" pattern) give different verdicts")
	if ok1 && ok2 {
		vassert(len(m1.State) == len(m2.State), label+": the two spellings expose different sets of bindings")
		for name, v := range m1.State {
			w, bound := m2.State[name]
			vassert(bound, label+": a binding of the shorthand spelling is missing in the explicit spelling")
			if bound {
				vassert(c09Eq(c09Unparen(v), c09Unparen(w)), label+": the two spellings bind different subtrees")
			}
		}
	}
}

// ---- typed trees: call expressions of a small type-checked package ----

const c09TypedSrc = `package p

func helper(x int) int { return x }

var other = helper

func g(s []int, n int) {
	_ = len(s)
	_ = cap(s)
	_ = helper(n)
	_ = other(1)
	_ = helper(len(s))
	_ = len
}

func shadow(len func([]int) int, s []int) int { return len(s) }
`

// c09TypedTrees parses and type-checks the source (real go/parser and
// go/types, in the engine) and returns its call expressions.
func c09TypedTrees() []ast.Expr {
	fset := token.NewFileSet()
	f, err := parser.ParseFile(fset, "p.go", c09TypedSrc, 0)
	vassert(err == nil, "harness: typed source parses")
	info := &types.Info{
		Types: map[ast.Expr]types.TypeAndValue{},
		Defs:  map[*ast.Ident]types.Object{},
		Uses:  map[*ast.Ident]types.Object{},
	}
	conf := types.Config{Error: func(error) {}}
	conf.Check("example.com/p", fset, []*ast.File{f}, info)
	c09Info = info
	var out []ast.Expr
	ast.Inspect(f, func(n ast.Node) bool {
		if c, ok := n.(*ast.CallExpr); ok {
			out = append(out, c)
		}
		return true
	})
	return out
}

func c09TypedCheck(label string, p Pattern) {
	trees := c09TypedTrees()
	c09Check(label, p, trees[vchoose(len(trees))])
	c09Info = nil
}
