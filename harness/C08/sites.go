package code

// C08 (candidate enumeration): the nodes the real code.Matches yields for a
// pattern are exactly the nodes on which the real matcher succeeds when it is
// tried on every syntax node of the package.
//
// Real code executed, all inside the engine: go/parser and go/types on the
// generated package (and its two dependencies, type-checked from source by
// the harness importer), inspector.New, typeindex.New, code.Matches,
// code.CouldMatchAny, typeindex.Index.Object/Selection/Calls/Uses,
// typeutil.Callee, pattern.Matcher.Match (Symbol.Match with go/types).
// The patterns are parsed natively by the real parser on every run and handed
// over as Go literals (Root, Bindings, EntryNodes, SymbolsPattern,
// RootCallSymbols).
//
// Enumerated by forking: the import form (plain, renamed, dot, none), and per
// site one of the call / reference forms below.

import (
	"go/ast"
	"go/parser"
	"go/token"
	"go/types"

	"golang.org/x/tools/go/analysis"
	"golang.org/x/tools/go/analysis/passes/inspect"
	"golang.org/x/tools/go/ast/inspector"

	typeindexanalyzer "honnef.co/go/tools/internal/xtools-internal/analysis/typeindex"
	"honnef.co/go/tools/internal/xtools-internal/typesinternal/typeindex"
	"honnef.co/go/tools/pattern"
)

func c08B(name string, idx int, node pattern.Node) pattern.Binding {
	b := pattern.Binding{Name: name, Node: node}
	vsetfield(&b, "idx", idx)
	return b
}

const c08DepSrc = `package dep

func F(a, b string) bool { return a == b }

func G[X any](x X) X { return x }

var V = func(x int) int { return x }

type D int

type T struct{ N int }

func (t *T) M(x int) int { return x + t.N }

type I interface{ M(x int) int }
`

const c08QSrc = `package q

import "example.com/dep"

type A = dep.D

func NewT() *dep.T { return &dep.T{} }

type W struct{ dep.T }
`

type c08Importer struct {
	fset *token.FileSet
	pkgs map[string]*types.Package
}

func (im *c08Importer) Import(path string) (*types.Package, error) {
	if p := im.pkgs[path]; p != nil {
		return p, nil
	}
	src := c08DepSrc
	if path == "example.com/q" {
		src = c08QSrc
	}
	f, err := parser.ParseFile(im.fset, path+".go", src, 0)
	if err != nil {
		return nil, err
	}
	conf := types.Config{Importer: im}
	p, err := conf.Check(path, im.fset, []*ast.File{f}, nil)
	if err != nil {
		return nil, err
	}
	im.pkgs[path] = p
	return p, nil
}

// site forms; %Q is replaced by the qualifier of package dep ("dep.", "d.", "")
// needsDep: the form names package dep directly
type c08Form struct {
	text     string
	needsDep bool
}

var c08Forms = []c08Form{
	{`use(%QF(s, "x"))`, true},
	{`use((%QF)(s, "x"))`, true},
	{`%QF(s, "x")`, true},
	{`f := %QF; use(f(s, "x"))`, true},
	{`use(%QF(s, "x") == true)`, true},
	{`defer %QF(s, "x")`, true},
	{`use(%QG(1))`, true},
	{`use(%QG[int](1))`, true},
	{`use((%QG[int])(1))`, true},
	{`use(%QV(1))`, true},
	{`use(%QD(5))`, true},
	{`use(q.A(5))`, false},
	{`use(t.M(1))`, false},
	{`use((t.M)(1))`, false},
	{`use(w.M(1))`, false},
	{`use(w.T.M(1))`, false},
	{`use((*%QT).M(t, 1))`, true},
	{`use(i.M(1))`, false},
	{`m := t.M; use(m(1))`, false},
	{`use(len(s))`, false},
	{`use(%QF, F2(s))`, true},
}

func c08Subst(text, q string) string {
	out := ""
	for i := 0; i < len(text); i++ {
		if text[i] == '%' && i+1 < len(text) && text[i+1] == 'Q' {
			out += q
			i++
			continue
		}
		out += string(text[i])
	}
	return out
}

// c08Program builds the source of package p with nSites sites.
func c08Program(nSites int) (src, desc string) {
	imp := vchoose(4)
	var q, importLine string
	switch imp {
	case 0:
		q, importLine = "dep.", `import "example.com/dep"`
	case 1:
		q, importLine = "d.", `import d "example.com/dep"`
	case 2:
		q, importLine = "", `import . "example.com/dep"`
	case 3:
		q, importLine = "", ""
	}
	body := ""
	desc = []string{"import plain", "import renamed", "import dot", "no import of dep"}[imp]
	for k := 0; k < nSites; k++ {
		f := c08Forms[vchoose(len(c08Forms))]
		if f.needsDep {
			vassume(imp != 3)
		}
		body += "\t{\n\t\t" + c08Subst(f.text, q) + "\n\t}\n"
		desc += "; " + c08Subst(f.text, q)
	}
	// keep the import of dep used whatever the sites are
	keep := ""
	if imp != 3 {
		keep = "var _ " + q + "T\n\n"
	}
	src = "package p\n\n" + importLine + "\nimport \"example.com/q\"\n\n" + keep +
		"type iface interface{ M(x int) int }\n\n" +
		"func use(...any) {}\n\nfunc F2(s string) bool { return s == \"\" }\n\n" +
		"func g(s string, w *q.W, i iface) {\n\tt := q.NewT()\n\tuse(t)\n" + body + "}\n"
	return src, desc
}

func c08Core(n ast.Node) ast.Node {
	for {
		switch x := n.(type) {
		case *ast.ParenExpr:
			n = x.X
		case *ast.ExprStmt:
			n = x.X
		default:
			return n
		}
	}
}

func c08Transparent(n ast.Node) bool {
	switch n.(type) {
	case *ast.ParenExpr, *ast.ExprStmt, *ast.DeclStmt, *ast.LabeledStmt, *ast.BlockStmt, *ast.FieldList:
		return true
	}
	return false
}

func c08Sites(label string, p pattern.Pattern, nSites int) {
	src, desc := c08Program(nSites)
	label += " [" + desc + "]"
	fset := token.NewFileSet()
	f, err := parser.ParseFile(fset, "p.go", src, 0)
	vassert(err == nil, "harness: generated program parses")
	info := &types.Info{
		Types:      map[ast.Expr]types.TypeAndValue{},
		Defs:       map[*ast.Ident]types.Object{},
		Uses:       map[*ast.Ident]types.Object{},
		Selections: map[*ast.SelectorExpr]*types.Selection{},
		Instances:  map[*ast.Ident]types.Instance{},
		Implicits:  map[ast.Node]types.Object{},
		Scopes:     map[ast.Node]*types.Scope{},
	}
	conf := types.Config{Importer: &c08Importer{fset: fset, pkgs: map[string]*types.Package{}}}
	pkg, err := conf.Check("example.com/p", fset, []*ast.File{f}, info)
	vassert(err == nil, "harness: generated program type-checks")
	ins := inspector.New([]*ast.File{f})
	idx := typeindex.New(ins, pkg, info)
	pass := &analysis.Pass{
		Fset: fset, Files: []*ast.File{f}, Pkg: pkg, TypesInfo: info,
		ResultOf: map[*analysis.Analyzer]any{inspect.Analyzer: ins, typeindexanalyzer.Analyzer: idx},
	}

	// every syntax node
	var want []ast.Node
	ast.Inspect(f, func(n ast.Node) bool {
		if n == nil || c08Transparent(n) {
			return true
		}
		if _, ok := Match(pass, p, n); ok {
			want = append(want, n)
		}
		return true
	})
	// the pre-filtered search
	var got []ast.Node
	Matches(pass, p)(func(n ast.Node, m *pattern.Matcher) bool {
		got = append(got, c08Core(n))
		return true
	})
	for _, w := range want {
		found := false
		for _, g := range got {
			if g == w {
				found = true
			}
		}
		vassert(found, label+": a node the matcher accepts is not among the nodes code.Matches yields")
	}
	for _, g := range got {
		found := false
		for _, w := range want {
			if g == w {
				found = true
			}
		}
		vassert(found, label+": code.Matches yields a node the matcher does not accept")
	}
	vobserve("want", len(want))
	vobserve("got", len(got))
}
