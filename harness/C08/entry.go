package pattern

// C08 (kernel): pre-filtering never drops a match.
//   - entry node kinds: whenever the real matcher accepts a syntax node, the
//     node's kind (after the transparent wrappers Match itself unwraps) is
//     among the pattern's precomputed EntryNodes;
//   - symbol names: symbolToIndexSymbol inverts the FullName formats
//     path.Ident, (path.Type).Method and (*path.Type).Method for symbolic
//     paths (with dots and slashes), type names and identifiers.
// EntryNodes are computed by the real parser (natively, every run) and
// handed over as type names.

import (
	"go/ast"
)

func c08Kind(n any) string {
	switch n.(type) {
	case *ast.Ident:
		return "*ast.Ident"
	case *ast.BasicLit:
		return "*ast.BasicLit"
	case *ast.BinaryExpr:
		return "*ast.BinaryExpr"
	case *ast.UnaryExpr:
		return "*ast.UnaryExpr"
	case *ast.CallExpr:
		return "*ast.CallExpr"
	case *ast.SliceExpr:
		return "*ast.SliceExpr"
	case *ast.ParenExpr:
		return "*ast.ParenExpr"
	}
	return "?"
}

func c08Entry(label string, p Pattern, entry []string, tree ast.Expr) {
	_, ok := Match(p, tree)
	vobserve(label, ok)
	if ok {
		kind := c08Kind(c09Unparen(tree))
		found := false
		for _, e := range entry {
			if e == kind {
				found = true
			}
		}
		vassert(found, label+": the matcher accepts a node whose kind is not among the pattern's entry nodes")
	}
}

// ---- symbol names ----

func c08Letters(n int) string {
	s := nondetString(n)
	for i := 0; i < len(s); i++ {
		vassume(s[i] >= 'a')
		vassume(s[i] <= 'z')
	}
	return s
}

// c08Path: an import path: seg | seg/seg | seg.seg/seg | seg/seg.seg (a dot in the last element, as in gopkg.in/yaml.v3)
func c08Path() string {
	a, b := c08Letters(1), c08Letters(2)
	switch vchoose(5) {
	case 0:
		return a
	case 1:
		return a + "/" + b
	case 2:
		return a + "." + b + "/" + a
	case 3:
		return a + "/" + b + "." + a
	}
	return a + "." + b + "/" + b + "." + a
}

func Harness_C08_symbol_names() {
	path := c08Path()
	ident := c08Letters(2)
	typ := c08Letters(1)
	var name string
	var want IndexSymbol
	switch vchoose(3) {
	case 0:
		name, want = path+"."+ident, IndexSymbol{path, "", ident}
	case 1:
		name, want = "("+path+"."+typ+")."+ident, IndexSymbol{path, typ, ident}
	case 2:
		name, want = "(*"+path+"."+typ+")."+ident, IndexSymbol{path, typ, ident}
	}
	got := symbolToIndexSymbol(name)
	vobserve("ident", got.Ident)
	vassert(got.Path == want.Path, "symbol name: package path is not recovered")
	vassert(got.Type == want.Type, "symbol name: receiver type is not recovered")
	vassert(got.Ident == want.Ident, "symbol name: identifier is not recovered")
	vreach("end")
}
