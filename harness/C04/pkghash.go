package loader

// C04 (kernel: key completeness of the package hash): loader.computeHash
// changes whenever a documented input changes: the package path, the
// export data's action id (or, without export data, each compiled file and
// go.mod), and each import's path and build id.
// Build ids are supplied through the function's own cache (buildidCache), so
// no object files have to be parsed.

import (
	"crypto/sha256"
	"os"
	"path/filepath"

	"golang.org/x/tools/go/packages"
	"honnef.co/go/tools/lintcmd/cache"
)

func c04Word(n int) string {
	s := nondetString(n)
	for i := 0; i < len(s); i++ {
		vassume(s[i] >= 'a')
		vassume(s[i] <= 'z')
	}
	return s
}

type c04Pkg struct {
	path              string
	hasExport         bool
	actionID, content string // build id = actionID/content
	file, gomod       string // contents when there is no export data
	depPath           string
	depAction, depCnt string
}

func c04Draw(hasExport bool) c04Pkg {
	return c04Pkg{path: c04Word(2), hasExport: hasExport, actionID: c04Word(2), content: c04Word(2),
		file: c04Word(1), gomod: c04Word(1), depPath: c04Word(1), depAction: c04Word(1), depCnt: c04Word(1)}
}

// c04Compute: the two scenarios use the same file names (a later run over
// edited files); the per-process file-hash cache is refreshed the way a new
// process would see the files.
func c04Compute(p c04Pkg, dir string) [32]byte {
	spec := &PackageSpec{PkgPath: p.path}
	if p.hasExport {
		spec.ExportFile = filepath.Join(dir, "exp")
		buildidCache[spec.ExportFile] = p.actionID + "/" + p.content
	} else {
		f := filepath.Join(dir, "f.go")
		g := filepath.Join(dir, "go.mod")
		os.WriteFile(f, []byte(p.file), 0o666)
		os.WriteFile(g, []byte(p.gomod), 0o666)
		cache.SetFileHash(f, sha256.Sum256([]byte(p.file)))
		cache.SetFileHash(g, sha256.Sum256([]byte(p.gomod)))
		spec.CompiledGoFiles = []string{f}
		spec.Module = &packages.Module{GoMod: g}
	}
	dep := &PackageSpec{PkgPath: p.depPath, ExportFile: filepath.Join(dir, "dep")}
	buildidCache[dep.ExportFile] = p.depAction + "/" + p.depCnt
	spec.Imports = map[string]*PackageSpec{p.depPath: dep}
	h, err := computeHash(spec)
	vassert(err == nil, "computeHash succeeds")
	return h
}

func c04Vary(k int, hasExport bool) {
	dir := vtempdir()
	a := c04Draw(hasExport)
	b := a
	same := true
	switch k {
	case 0:
		b.path = c04Word(2)
		same = a.path == b.path
	case 1:
		b.actionID = c04Word(2)
		same = a.actionID == b.actionID
	case 2:
		b.file = c04Word(1)
		same = a.file == b.file
	case 3:
		b.gomod = c04Word(1)
		same = a.gomod == b.gomod
	case 4:
		b.depPath = c04Word(1)
		same = a.depPath == b.depPath
	case 5:
		b.depAction = c04Word(1)
		same = a.depAction == b.depAction
	case 6:
		b.depCnt = c04Word(1)
		same = a.depCnt == b.depCnt
	}
	h1 := c04Compute(a, dir)
	h2 := c04Compute(b, dir)
	if h1 == h2 {
		vassert(same, "two packages that differ in a key input have the same package hash")
	}
	vreach("end")
}

func Harness_C04_hash_pkgpath()   { c04Vary(0, true) }
func Harness_C04_hash_actionid()  { c04Vary(1, true) }
func Harness_C04_hash_file()      { c04Vary(2, false) }
func Harness_C04_hash_gomod()     { c04Vary(3, false) }
func Harness_C04_hash_deppath()   { c04Vary(4, true) }
func Harness_C04_hash_depaction() { c04Vary(5, true) }
func Harness_C04_hash_depcontent() { c04Vary(6, true) }
