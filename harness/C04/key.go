package runner

// C04 (kernel: key completeness of the per-package action): the hash that
// (*subrunner).do computes before it consults the cache changes whenever a
// documented key input changes (package path, package hash, the merged
// configuration minus Checks, analyzer set, Go version, each dependency's
// path and fact file), and does not depend on Checks.
//
// Real code executed: (*subrunner).do from entry up to the first cache
// lookup (the injected cache.Cache stops it there), config.Config.Merge,
// cache.NewHash / Hash.Write / Hash.Sum / Subkey / FileHash.
// SHA-256 is modelled as a collision-free function (equal digests <=> equal
// inputs); fmt renders %#v / %q / %x / %s symbolically.

import (
	"io"
	"os"
	"path/filepath"

	"honnef.co/go/tools/config"
	"honnef.co/go/tools/go/loader"
	"honnef.co/go/tools/lintcmd/cache"
)

type c04Stop struct{}

// c04Cache stops the action at its first cache lookup.
type c04Cache struct{}

func (c04Cache) Get(cache.ActionID) (cache.Entry, error) { panic(c04Stop{}) }
func (c04Cache) Put(cache.ActionID, io.ReadSeeker) (cache.OutputID, int64, error) {
	panic(c04Stop{})
}
func (c04Cache) Close() error                      { return nil }
func (c04Cache) OutputFile(cache.OutputID) string { panic(c04Stop{}) }

// c04Word: n lower-case letters.
func c04Word(n int) string {
	s := nondetString(n)
	for i := 0; i < len(s); i++ {
		vassume(s[i] >= 'a')
		vassume(s[i] <= 'z')
	}
	return s
}

func c04List() []string {
	switch vchoose(4) {
	case 0:
		return nil
	case 1:
		return []string{}
	case 2:
		return []string{c04Word(1)}
	}
	return []string{c04Word(1), c04Word(2)}
}

func c04ListEq(a, b []string) bool {
	if len(a) != len(b) || (a == nil) != (b == nil) {
		return false // nil and empty lists render differently; that only costs a cache miss
	}
	for i := range a {
		if a[i] != b[i] {
			return false
		}
	}
	return true
}

type c04Dep struct {
	path string
	vetx []byte
}

type c04Input struct {
	pkgPath   string
	pkgHash   cache.ActionID
	pkgCfg    config.Config
	cmdCfg    config.Config
	analyzers string
	goVersion string
	deps      []c04Dep
}

func c04GoVersion() string {
	d := nondetByte()
	vassume(d >= '0')
	vassume(d <= '9')
	e := nondetByte()
	vassume(e >= '0')
	vassume(e <= '9')
	return "go1." + string([]byte{d, e})
}

func c04Bytes() []byte {
	n := vchoose(3)
	b := make([]byte, n)
	for i := range b {
		b[i] = nondetByte()
	}
	return b
}

func c04Base(nDeps int) c04Input {
	in := c04Input{pkgPath: c04Word(2), analyzers: c04Word(2), goVersion: c04GoVersion()}
	in.pkgHash[0], in.pkgHash[31] = nondetByte(), nondetByte()
	in.pkgCfg = config.Config{Checks: []string{"all"}, Initialisms: c04List(), DotImportWhitelist: []string{"x"}, HTTPStatusCodeWhitelist: c04List()}
	for i := 0; i < nDeps; i++ {
		in.deps = append(in.deps, c04Dep{path: c04Word(1), vetx: c04Bytes()})
	}
	return in
}

// c04Hash runs the real action up to its cache lookup and returns the key.
func c04Hash(in c04Input, dir, tag string) cache.ActionID {
	r := &subrunner{Runner: &Runner{GoVersion: in.goVersion, cfg: in.cmdCfg}, analyzerNames: in.analyzers, cache: c04Cache{}}
	a := &packageAction{Package: &loader.PackageSpec{PkgPath: in.pkgPath, Hash: in.pkgHash, Config: in.pkgCfg}}
	for i, d := range in.deps {
		f := filepath.Join(dir, tag+string(rune('0'+i)))
		if err := os.WriteFile(f, d.vetx, 0o666); err != nil {
			panic(err)
		}
		a.deps = append(a.deps, &packageAction{Package: &loader.PackageSpec{PkgPath: d.path}, vetx: f})
	}
	func() {
		defer func() {
			if r := recover(); r != nil {
				if _, ok := r.(c04Stop); !ok {
					panic(r)
				}
			}
		}()
		r.do(a)
	}()
	return a.hash
}

// c04Vary: two scenarios that differ in at most the k-th key input.
func c04Vary(k int, nDeps int) {
	dir := vtempdir()
	a := c04Base(nDeps)
	b := a
	same := true
	switch k {
	case 0:
		// the package path reaches the key through the package hash (loader.computeHash), see the loader group
		b.pkgPath = c04Word(2)
		same = true
	case 1:
		b.pkgHash[0], b.pkgHash[31] = nondetByte(), nondetByte()
		same = a.pkgHash == b.pkgHash
	case 2:
		b.pkgCfg.Initialisms = c04List()
		same = c04ListEq(a.pkgCfg.Initialisms, b.pkgCfg.Initialisms)
	case 3:
		b.pkgCfg.DotImportWhitelist = c04List()
		same = c04ListEq(a.pkgCfg.DotImportWhitelist, b.pkgCfg.DotImportWhitelist)
	case 4:
		b.pkgCfg.HTTPStatusCodeWhitelist = c04List()
		same = c04ListEq(a.pkgCfg.HTTPStatusCodeWhitelist, b.pkgCfg.HTTPStatusCodeWhitelist)
	case 5:
		b.analyzers = c04Word(2)
		same = a.analyzers == b.analyzers
	case 6:
		b.goVersion = c04GoVersion()
		same = a.goVersion == b.goVersion
	case 7:
		b.deps = append([]c04Dep(nil), a.deps...)
		i := vchoose(len(a.deps))
		b.deps[i].path = c04Word(1)
		same = a.deps[i].path == b.deps[i].path
	case 8:
		b.deps = append([]c04Dep(nil), a.deps...)
		i := vchoose(len(a.deps))
		b.deps[i].vetx = c04Bytes()
		same = string(a.deps[i].vetx) == string(b.deps[i].vetx)
	case 9:
		// the command-line configuration is merged over the package's
		b.cmdCfg.Initialisms = []string{c04Word(1)}
		a.cmdCfg.Initialisms = []string{c04Word(1)}
		same = a.cmdCfg.Initialisms[0] == b.cmdCfg.Initialisms[0]
	}
	h1 := c04Hash(a, dir, "a")
	h2 := c04Hash(b, dir, "b")
	if h1 == h2 {
		vassert(same, "two actions that differ in a key input have the same cache key")
	}
	if same {
		vassert(h1 == h2, "two actions with equal inputs have different cache keys")
	}
	vreach("end")
}

func Harness_C04_pkghash()     { c04Vary(1, 0) }
func Harness_C04_initialisms() { c04Vary(2, 0) }
func Harness_C04_dotimport()   { c04Vary(3, 0) }
func Harness_C04_httpstatus()  { c04Vary(4, 0) }
func Harness_C04_analyzers()   { c04Vary(5, 0) }
func Harness_C04_goversion()   { c04Vary(6, 0) }
func Harness_C04_deppath()     { c04Vary(7, 2) }
func Harness_C04_depvetx()     { c04Vary(8, 2) }
func Harness_C04_cmdline()     { c04Vary(9, 0) }

// Checks is deliberately not part of the key.
func Harness_C04_checks_not_in_key() {
	dir := vtempdir()
	a := c04Base(0)
	b := a
	b.pkgCfg.Checks = []string{c04Word(2)}
	b.cmdCfg.Checks = []string{"inherit", c04Word(1)}
	vassert(c04Hash(a, dir, "a") == c04Hash(b, dir, "b"), "the check selection influences the cache key")
	vreach("end")
}
