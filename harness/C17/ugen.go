package unused

// Shared by C17 (source level) and C07: a small package skeleton whose
// reference structure is chosen per path (slots filled with one of the
// reference forms below), assembled into source text in a chosen declaration
// order and file split, parsed and type-checked by the real go/parser and
// go/types inside the engine, and analysed by the real graph construction
// (newGraph, graph.entry and everything below it) and SerializedGraph.Results.

import (
	"go/ast"
	"go/parser"
	"go/token"
	"go/types"
	"strings"

	"honnef.co/go/tools/analysis/facts/generated"
	"honnef.co/go/tools/analysis/lint"
)

// ugChunk is one top-level declaration; "%S" marks a slot.
type ugChunk struct {
	name string // the object the declaration introduces
	text string
}

var ugSkeleton = []ugChunk{
	{"t1", "type t1 struct {\n\tfa int\n\tfb string\n\tt2\n}"},
	{"t2", "type t2 struct {\n\tga int\n}"},
	{"t3", "type t3 struct {\n\tga int\n}"},
	{"i1", "type i1 interface {\n\tm1()\n}"},
	{"i2", "type i2 interface {\n\tm1(x int)\n}"},
	{"t1.m1", "func (t1) m1() {}"},
	{"t2.m1", "func (t2) m1(x int) {}"},
	{"(*t1).m2", "func (*t1) m2() {\n\t%S\n}"},
	{"f1", "func f1() {\n\t%S\n}"},
	{"f2", "func f2() int { return 2 }"},
	{"f3", "func f3[X any](x X) X { return x }"},
	{"v1", "var v1 = f2()"},
	{"v2", "var v2 int"},
	{"c1", "const c1 = 1"},
	{"a1", "type a1 = t3"},
	{"g1", "type g1[X any] struct {\n\tgx X\n}"},
	{"g1[X].gm", "func (g g1[X]) gm() X { return g.gx }"},
	{"d1", "type d1 struct {\n\td2\n\td3\n}"},
	{"d2", "type d2 struct {\n\td4\n}"},
	{"d3", "type d3 struct {\n\td4\n}"},
	{"d4", "type d4 struct {\n\tID int\n}"},
	{"k1", "const (\n\tk1 = iota\n\tk2\n\tk3\n)"},
	{"use", "func use(...any) {}"},
	{"Exported", "func Exported() {\n\t%S\n\t%S\n}"},
}

// reference forms a slot can hold (each in its own block)
var ugForms = []string{
	"",
	"f1()",
	"use(f2)",
	"use(f3[int])",
	"use(v1)",
	"v2 = 1",
	"use(c1)",
	"var t t1; use(t.fa)",
	"var t t1; t.m1()",
	"use((*t1).m2)",
	"var i i1 = t1{}; use(i)",
	"var i i2 = t2{}; use(i)",
	"use(t3(t2{}))",
	"var a a1; use(a)",
	"use(t1{}.ga)",
	"var g g1[int]; use(g.gm())",
	"use(d1{})",
	"use(func() int { return f2() })",
	"var t t1; mv := t.m1; mv()",
	"var t t1; t.fb = \"\"",
	"type loc struct{ t2 }; var i i2 = loc{}; use(i)",
	"switch v := f2(); y := any(v).(type) { case int: use(y) }",
	"use([]*t3{{1}})",
	"var t t1; use(t.t2.ga)",
	"use(k2)",
	"var m map[t3]*t2; use(m)",
}

// ugSwap, when set, names a chunk whose lines a and b are exchanged (the
// order of two fields inside one struct declaration); keys are mapped back.
var ugSwap struct {
	on          bool
	chunk, a, b int
}

// ugIgnore, when set, puts a //lint:ignore U1000 directive on its own line
// directly above the given declaration.
var ugIgnore struct {
	on    bool
	chunk int
}

const ugNSlots = 4 // m2, f1, Exported x 2 (in skeleton order)

// ugKey identifies an object independently of declaration order.
type ugKey struct {
	chunk, line int
	name        string
}

type ugProgram struct {
	files  []string       // source per file
	names  []string       // file names
	starts [][]int        // per file: first line (1-based) of each chunk in it
	chunks [][]int        // per file: chunk indices in order
	lines  map[int]string // deleted lines bookkeeping (unused here)
}

// ugBuild assembles the package: order lists chunk indices; split is the
// number of leading chunks that go to the first file (len(order) = one file);
// slots gives the form index per slot; del marks (chunk,line) pairs to leave
// out (line -1: the whole chunk).
func ugBuild(order []int, split int, slots [ugNSlots]int, del map[[2]int]bool) *ugProgram {
	p := &ugProgram{}
	// slot numbering follows the skeleton, not the order
	slotOf := map[int]int{}
	n := 0
	for ci, c := range ugSkeleton {
		if strings.Contains(c.text, "%S") {
			slotOf[ci] = n
			n += strings.Count(c.text, "%S")
		}
	}
	emit := func(name string, part []int) {
		var sb strings.Builder
		sb.WriteString("package p\n\n")
		line := 3
		var starts []int
		for _, ci := range part {
			if ugIgnore.on && ugIgnore.chunk == ci && !del[[2]int{ci, -1}] {
				sb.WriteString("//lint:ignore U1000 kept on purpose\n")
				line++
			}
			starts = append(starts, line)
			if del[[2]int{ci, -1}] {
				continue
			}
			text := ugSkeleton[ci].text
			s := slotOf[ci]
			for strings.Contains(text, "%S") {
				text = strings.Replace(text, "%S", "{ "+ugForms[slots[s]]+" }", 1)
				s++
			}
			lines := strings.Split(text, "\n")
			if ugSwap.on && ugSwap.chunk == ci {
				lines[ugSwap.a], lines[ugSwap.b] = lines[ugSwap.b], lines[ugSwap.a]
			}
			for li, l := range lines {
				if del[[2]int{ci, li}] {
					continue
				}
				sb.WriteString(l)
				sb.WriteString("\n")
				line++
			}
			sb.WriteString("\n")
			line++
		}
		p.files = append(p.files, sb.String())
		p.names = append(p.names, name)
		p.starts = append(p.starts, starts)
		p.chunks = append(p.chunks, part)
	}
	if split >= len(order) {
		emit("a.go", order)
	} else {
		emit("a.go", order[:split])
		emit("b.go", order[split:])
	}
	return p
}

// key maps a position to the order-independent identity of the object there.
func (p *ugProgram) key(pos token.Position, name string) ugKey {
	for fi, fn := range p.names {
		if fn != pos.Filename {
			continue
		}
		for k := len(p.starts[fi]) - 1; k >= 0; k-- {
			if pos.Line >= p.starts[fi][k] {
				ci, li := p.chunks[fi][k], pos.Line-p.starts[fi][k]
				if ugSwap.on && ugSwap.chunk == ci {
					if li == ugSwap.a {
						li = ugSwap.b
					} else if li == ugSwap.b {
						li = ugSwap.a
					}
				}
				return ugKey{ci, li, name}
			}
		}
	}
	return ugKey{-1, pos.Line, name}
}

type ugAnalysis struct {
	prog    *ugProgram
	fset    *token.FileSet
	files   []*ast.File
	pkg     *types.Package
	info    *types.Info
	errs    []string
	verdict map[ugKey]int // 1 used, 2 unused, 3 quiet
	res     Result
}

func ugNewInfo() *types.Info {
	return &types.Info{
		Types:      map[ast.Expr]types.TypeAndValue{},
		Defs:       map[*ast.Ident]types.Object{},
		Uses:       map[*ast.Ident]types.Object{},
		Selections: map[*ast.SelectorExpr]*types.Selection{},
		Instances:  map[*ast.Ident]types.Instance{},
		Implicits:  map[ast.Node]types.Object{},
		Scopes:     map[ast.Node]*types.Scope{},
	}
}

// ugCheck parses and type-checks the program; fileOrder permutes the files.
func ugCheck(p *ugProgram, reverseFiles bool) *ugAnalysis {
	a := &ugAnalysis{prog: p, fset: token.NewFileSet(), info: ugNewInfo()}
	idx := []int{}
	for i := range p.files {
		idx = append(idx, i)
	}
	if reverseFiles && len(idx) == 2 {
		idx[0], idx[1] = 1, 0
	}
	for _, i := range idx {
		f, err := parser.ParseFile(a.fset, p.names[i], p.files[i], parser.ParseComments)
		if err != nil {
			a.errs = append(a.errs, "parse: "+err.Error())
			return a
		}
		a.files = append(a.files, f)
	}
	conf := types.Config{Error: func(err error) { a.errs = append(a.errs, err.Error()) }}
	a.pkg, _ = conf.Check("example.com/p", a.fset, a.files, a.info)
	return a
}

// ugAnalyze runs the real U1000 graph construction and verdict computation.
func (a *ugAnalysis) analyze() {
	var dirs []lint.Directive
	if ugIgnore.on {
		dirs = lint.ParseDirectives(a.files, a.fset)
	}
	g := newGraph(a.fset, a.files, a.pkg, a.info, dirs, map[string]generated.Generator{}, DefaultOptions)
	g.entry()
	sg := &SerializedGraph{nodes: g.nodes}
	a.res = sg.Results()
	a.verdict = map[ugKey]int{}
	put := func(objs []Object, v int) {
		for _, o := range objs {
			k := a.prog.key(o.Position, o.Name)
			if old, ok := a.verdict[k]; ok && old != v {
				vassert(false, "one object is listed with two different verdicts in one run")
			}
			a.verdict[k] = v
		}
	}
	put(a.res.Used, 1)
	put(a.res.Unused, 2)
	put(a.res.Quiet, 3)
}

func ugIdentityOrder() []int {
	var o []int
	for i := range ugSkeleton {
		o = append(o, i)
	}
	return o
}

// ugMove returns the identity order with chunk i moved to position j.
func ugMove(i, j int) []int {
	var o []int
	for k := range ugSkeleton {
		if k != i {
			o = append(o, k)
		}
	}
	var out []int
	out = append(out, o[:j]...)
	out = append(out, i)
	out = append(out, o[j:]...)
	return out
}

func ugSameVerdicts(a, b *ugAnalysis, msg string) {
	for k, v := range a.verdict {
		w, ok := b.verdict[k]
		vassert(ok && v == w, msg)
	}
	vassert(len(a.verdict) == len(b.verdict), msg)
}

// slot presets that together touch every reference form
var ugPresets = [][ugNSlots]int{
	{0, 0, 1, 10},
	{2, 7, 9, 11},
	{4, 12, 1, 16},
	{18, 15, 1, 14},
	{19, 3, 13, 8},
	{5, 6, 17, 1},
}
