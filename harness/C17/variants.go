package lintcmd

// C17 (variants clause): when tests are analysed, an object is reported by
// U1000 only if it is unused in every variant of its package, and the
// verdicts of one package never leak into another.
//
// Real code executed: (*linter).lint — the loop over runner results, the
// used/unusedKey merge, filterAnalyzerNames, success, filterIgnored, the
// final emission of U1000 diagnostics. The runner itself (loading, analysis,
// the gob files behind Result.Load) is replaced by stubs that return the
// symbolic scenario; see //verif:stub below.
//
// Symbolic: for every object slot its line, the byte of its name, the byte of
// its file's base name, whether display positions are remapped (//line), its ObjectPath package (present or empty, as
// objectpath yields no path for unexported objects) and whether the variant
// lists it as used, unused, or not at all; whether each package enables
// U1000.

import (
	"go/token"

	"golang.org/x/tools/go/analysis"
	"golang.org/x/tools/go/packages"

	"honnef.co/go/tools/analysis/lint"
	"honnef.co/go/tools/config"
	"honnef.co/go/tools/go/loader"
	"honnef.co/go/tools/lintcmd/runner"
	"honnef.co/go/tools/unused"
)

type c17Slot struct {
	pkg     int // package index
	variant int // index into results
	status  int // 0 absent, 1 used, 2 unused
	line    int
	name    string
	base    string
	obj     unused.Object
}

var c17Pkgs = [2]string{"example.com/a", "example.com/b"}
var c17Dirs = [2]string{"/src/a/", "/src/b/"}

// c17Scenario builds nVar[p] variants for package p with nObj object slots each.
func c17Scenario(nVar [2]int, nObj int, perSlotPath bool) ([]c17Slot, [2]bool) {
	allPaths := nondetBool()
	// positions remapped by //line directives (or cgo): the position shown to
	// the user differs from the position of the declaration
	remap := nondetBool()
	c17Results = nil
	c17Data = map[*loader.PackageSpec]runner.ResultData{}
	var slots []c17Slot
	var enabled [2]bool
	var order []int // package index per result, interleaved
	for v := 0; v < 2; v++ {
		for p := 0; p < 2; p++ {
			if v < nVar[p] {
				order = append(order, p)
			}
		}
	}
	for p := 0; p < 2; p++ {
		enabled[p] = nondetBool()
	}
	for vi, p := range order {
		spec := &loader.PackageSpec{PkgPath: c17Pkgs[p], ID: c17Pkgs[p], GoFiles: []string{c17Dirs[p] + "f.go"}}
		checks := []string{"all"}
		if !enabled[p] {
			checks = []string{"all", "-U1000"}
		}
		var data runner.ResultData
		for j := 0; j < nObj; j++ {
			var s c17Slot
			s.pkg, s.variant = p, vi
			s.line = int(nondetUint8())
			vassume(s.line >= 1)
			vassume(s.line <= 2)
			s.name = nondetString(1)
			vassume(s.name[0]|1 == 'g') // 'f' or 'g'
			s.base = nondetString(1)
			vassume(s.base[0]|1 == 'y') // 'x' or 'y'
			file := c17Dirs[p] + s.base + ".go"
			s.obj = unused.Object{
				Name: s.name, ShortName: s.name, Kind: "func",
				Position:        token.Position{Filename: file, Line: s.line, Column: 6},
				DisplayPosition: token.Position{Filename: file, Line: s.line, Column: 6},
			}
			if remap {
				s.obj.DisplayPosition = token.Position{Filename: c17Dirs[p] + "gen.y", Line: s.line + 100, Column: 1}
			}
			if perSlotPath {
				if nondetBool() {
					s.obj.Path.PkgPath = c17Pkgs[p]
				}
			} else if allPaths {
				s.obj.Path.PkgPath = c17Pkgs[p]
			}
			if nondetBool() {
				s.status = 1
				data.Unused.Used = append(data.Unused.Used, s.obj)
			} else if nondetBool() {
				s.status = 2
				data.Unused.Unused = append(data.Unused.Unused, s.obj)
			}
			slots = append(slots, s)
		}
		c17Data[spec] = data
		c17Results = append(c17Results, runner.Result{
			Package: spec,
			Config:  config.Config{Checks: checks},
			Initial: true,
		})
	}
	return slots, enabled
}

func c17SameObject(a, b *c17Slot) bool {
	return a.pkg == b.pkg && a.line == b.line && a.name == b.name && a.base == b.base
}

func c17Check(nVar [2]int, nObj int, perSlotPath bool) {
	slots, enabled := c17Scenario(nVar, nObj, perSlotPath)
	l := &linter{
		analyzers: map[caseFoldedString]*lint.Analyzer{
			makeCaseFoldedString("U1000"): {
				Analyzer: &analysis.Analyzer{Name: "U1000"},
				Doc:      &lint.RawDocumentation{},
			},
		},
	}
	out, err := l.lint(nil, &packages.Config{}, []string{"./..."})
	vassert(err == nil, "lint returns no error")
	// expected: every unused listing (in a variant whose package enables
	// U1000) of an object that no variant of the same package lists as
	// used, in result order
	var want []*c17Slot
	for i := range slots {
		s := &slots[i]
		if s.status != 2 || !enabled[s.pkg] {
			continue
		}
		usedSomewhere := false
		for k := range slots {
			t := &slots[k]
			if t.status == 1 && c17SameObject(s, t) {
				usedSomewhere = true
			}
		}
		if !usedSomewhere {
			want = append(want, s)
		}
	}
	var got []diagnostic
	for _, d := range out.Diagnostics {
		if d.Category == "U1000" {
			got = append(got, d)
		}
	}
	for _, s := range want {
		found := false
		for _, d := range got {
			if d.Position == s.obj.DisplayPosition && d.Message == "func "+s.name+" is unused" {
				found = true
			}
		}
		vassert(found, "an object unused in some variant and used in no variant of its package is reported")
	}
	for _, d := range got {
		found := false
		for _, s := range want {
			if d.Position == s.obj.DisplayPosition && d.Message == "func "+s.name+" is unused" {
				found = true
			}
		}
		vassert(found, "an object is reported only if no variant of its package uses it and U1000 is enabled for it")
	}
	vassert(len(got) == len(want), "one U1000 diagnostic per unused listing of a reportable object")
	vobserve("n", len(got))
	vreach("end")
}

// package a in two variants, package b in one; one object listing per variant
func Harness_C17_variants_211() { c17Check([2]int{2, 1}, 1, true) }

// both packages in two variants, one listing per variant
func Harness_C17_variants_221() { c17Check([2]int{2, 2}, 1, false) }

// package a in two variants, package b in one; two listings per variant
func Harness_C17_variants_212() { c17Check([2]int{2, 1}, 2, false) }
