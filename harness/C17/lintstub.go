package lintcmd

// Stubs that replace the runner underneath (*linter).lint: Run returns the
// scenario's results, Load the scenario's per-result data. Engine: the
// //verif:stub directives; native replay: the same functions installed as
// hooks through a source overlay (checks/nativestub.go).

import (
	"golang.org/x/tools/go/analysis"
	"golang.org/x/tools/go/packages"

	"honnef.co/go/tools/go/loader"
	"honnef.co/go/tools/lintcmd/runner"
)

//verif:stub (*honnef.co/go/tools/lintcmd/runner.Runner).Run c17Run
//verif:stub (honnef.co/go/tools/lintcmd/runner.Result).Load c17Load

var (
	c17Results []runner.Result
	c17Data    map[*loader.PackageSpec]runner.ResultData
)

func c17Run(r *runner.Runner, cfg *packages.Config, as []*analysis.Analyzer, patterns []string) ([]runner.Result, error) {
	return c17Results, nil
}

func c17Load(r runner.Result) (runner.ResultData, error) {
	return c17Data[r.Package], nil
}

