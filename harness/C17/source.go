package unused

// C17 (source level): the U1000 verdict of every object is independent of
// the order of top-level declarations, of how the declarations are split into
// files and of the order of the files, and of repeating the analysis; adding
// a reference from used code never turns a used object into an unused one.
// See ugen.go for what is executed and how programs are generated.

func ugBase(slots [ugNSlots]int) *ugAnalysis {
	a := ugCheck(ugBuild(ugIdentityOrder(), len(ugSkeleton), slots, nil), false)
	vassert(len(a.errs) == 0, "harness: generated package type-checks")
	a.analyze()
	return a
}

func c17SrcOrder(presets int) {
	slots := ugPresets[vchoose(presets)]
	base := ugBase(slots)
	n := len(ugSkeleton)
	i := vchoose(n)
	j := vchoose(n)
	vassume(i != j)
	perm := ugCheck(ugBuild(ugMove(i, j), n, slots, nil), false)
	vassert(len(perm.errs) == 0, "harness: permuted package type-checks")
	perm.analyze()
	ugSameVerdicts(base, perm, "the verdict of an object changes when one top-level declaration is moved")
	vreach("end")
}

func Harness_C17_src_order_q() { c17SrcOrder(2) }

func Harness_C17_src_order() { c17SrcOrder(len(ugPresets)) }

func Harness_C17_src_files() {
	slots := ugPresets[vchoose(len(ugPresets))]
	base := ugBase(slots)
	n := len(ugSkeleton)
	split := 1 + vchoose(n-1)
	rev := vchoose(2) == 1
	two := ugCheck(ugBuild(ugIdentityOrder(), split, slots, nil), rev)
	vassert(len(two.errs) == 0, "harness: split package type-checks")
	two.analyze()
	ugSameVerdicts(base, two, "the verdict of an object changes with the split into files or the order of the files")
	vreach("end")
}

func Harness_C17_src_repeat() {
	slots := ugPresets[vchoose(len(ugPresets))]
	a := ugBase(slots)
	first := a.verdict
	a.analyze() // same syntax and type information again
	for k, v := range first {
		vassert(a.verdict[k] == v, "the verdict of an object changes when the analysis is repeated")
	}
	vassert(len(first) == len(a.verdict), "the verdict of an object changes when the analysis is repeated")
	b := ugBase(slots) // fresh parse and type-check
	ugSameVerdicts(a, b, "the verdict of an object changes when the package is loaded and analysed again")
	vreach("end")
}

// one reference added to used code (the second slot of Exported)
func Harness_C17_src_monotone() {
	slots := ugPresets[vchoose(len(ugPresets))]
	slots[3] = 0
	base := ugBase(slots)
	slots[3] = 1 + vchoose(len(ugForms)-1)
	ext := ugBase(slots)
	for k, v := range base.verdict {
		if v == 1 {
			vassert(ext.verdict[k] == 1, "an object that was used becomes unused after a reference was added to used code")
		}
	}
	vreach("end")
}

// the order of two fields inside one struct declaration (an extension of the
// declaration-order clause: the embedded fields of d1 and the fields of t1)
func Harness_C17_src_fields() {
	slots := ugPresets[vchoose(len(ugPresets))]
	ugSwap.on = false
	base := ugBase(slots)
	type sw struct{ chunk, a, b int }
	sws := []sw{}
	for ci, c := range ugSkeleton {
		switch c.name {
		case "d1":
			sws = append(sws, sw{ci, 1, 2})
		case "t1":
			sws = append(sws, sw{ci, 1, 2}, sw{ci, 2, 3}, sw{ci, 1, 3})
		}
	}
	w := sws[vchoose(len(sws))]
	ugSwap.on, ugSwap.chunk, ugSwap.a, ugSwap.b = true, w.chunk, w.a, w.b
	perm := ugBase(slots)
	ugSwap.on = false
	ugSameVerdicts(base, perm, "the verdict of an object changes when two fields of a struct declaration are exchanged")
	vreach("end")
}
