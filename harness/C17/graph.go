package unused

// C17 (graph level): the U1000 verdict computed by the real
// SerializedGraph.Results / colorAndQuieten / color / Merge is reachability
// from the root over `uses`, with objects transitively owned by an unused
// object quiet; it does not depend on the numbering/order of nodes or on
// repeating a merge, and adding a reference from a used object never makes a
// used object unused.
// Graph shape (uses: arbitrary, owns: acyclic) enumerated by forking.

import (
	"fmt"
	"go/token"
)

type c17Shape struct {
	k    int      // objects 1..k, node 0 is the root
	uses [][]bool // uses[i][j], i in 0..k, j in 1..k
	owns [][]bool // owns[i][j], 1 <= i < j <= k (acyclic)
}

func c17Make(k int, maxUses int) *c17Shape {
	s := &c17Shape{k: k}
	s.uses = make([][]bool, k+1)
	s.owns = make([][]bool, k+1)
	for i := 0; i <= k; i++ {
		s.uses[i] = make([]bool, k+1)
		s.owns[i] = make([]bool, k+1)
		n := 0
		for j := 1; j <= k; j++ {
			if i != j && n < maxUses && nondetBool() {
				s.uses[i][j] = true
				n++
			}
		}
		for j := i + 1; j <= k && i >= 1; j++ {
			if nondetBool() {
				s.owns[i][j] = true
			}
		}
	}
	return s
}

func c17Obj(i int) Object {
	return Object{Name: fmt.Sprintf("obj%d", i), Kind: "func",
		Position: token.Position{Filename: "f.go", Line: i, Column: 1}}
}

// nodes builds the node list with object i stored at id perm[i] (perm[0] = 0).
func (s *c17Shape) nodes(perm []int) []Node {
	out := make([]Node, s.k+1)
	for i := 0; i <= s.k; i++ {
		n := Node{id: NodeID(perm[i])}
		if i > 0 {
			n.obj = c17Obj(i)
		}
		for j := 1; j <= s.k; j++ {
			if s.uses[i][j] {
				n.uses = append(n.uses, NodeID(perm[j]))
			}
			if s.owns[i][j] {
				n.owns = append(n.owns, NodeID(perm[j]))
			}
		}
		out[perm[i]] = n
	}
	return out
}

// verdicts: 0 used, 1 quiet, 2 unused — by the documented rule.
func (s *c17Shape) expected() []int {
	used := make([]bool, s.k+1)
	used[0] = true
	for changed := true; changed; {
		changed = false
		for i := 0; i <= s.k; i++ {
			for j := 1; j <= s.k; j++ {
				if used[i] && s.uses[i][j] && !used[j] {
					used[j] = true
					changed = true
				}
			}
		}
	}
	// quiet: reachable over owns (one or more steps) from an unused object
	quiet := make([]bool, s.k+1)
	for changed := true; changed; {
		changed = false
		for i := 1; i <= s.k; i++ {
			for j := 1; j <= s.k; j++ {
				if s.owns[i][j] && (!used[i] || quiet[i]) && !quiet[j] {
					quiet[j] = true
					changed = true
				}
			}
		}
	}
	v := make([]int, s.k+1)
	for i := 1; i <= s.k; i++ {
		switch {
		case used[i]:
			v[i] = 0
		case quiet[i]:
			v[i] = 1
		default:
			v[i] = 2
		}
	}
	return v
}

func c17Verdicts(k int, res Result) []int {
	v := make([]int, k+1)
	cnt := make([]int, k+1)
	set := func(objs []Object, verdict int) {
		for _, o := range objs {
			i := o.Position.Line
			v[i] = verdict
			cnt[i]++
		}
	}
	set(res.Used, 0)
	set(res.Quiet, 1)
	set(res.Unused, 2)
	for i := 1; i <= k; i++ {
		vassert(cnt[i] == 1, "every object appears in exactly one of Used / Quiet / Unused")
	}
	return v
}

func c17AllPerms(k int) [][]int {
	var out [][]int
	cur := make([]int, 0, k)
	used := make([]bool, k+1)
	var rec func()
	rec = func() {
		if len(cur) == k {
			out = append(out, append([]int{0}, cur...))
			return
		}
		for c := 1; c <= k; c++ {
			if !used[c] {
				used[c] = true
				cur = append(cur, c)
				rec()
				cur = cur[:len(cur)-1]
				used[c] = false
			}
		}
	}
	rec()
	return out
}

// c17Perm: a permutation of 1..k chosen by forking; index 0 stays the root
func c17Perm(k int) []int {
	all := c17AllPerms(k)
	return all[vchoose(len(all))]
}

func c17Identity(k int) []int {
	p := make([]int, k+1)
	for i := range p {
		p[i] = i
	}
	return p
}

// Results on a directly constructed graph, under every numbering of the nodes.
func c17Results(k, maxUses int) {
	s := c17Make(k, maxUses)
	want := s.expected()
	perm := c17Perm(k)
	g := &SerializedGraph{nodes: s.nodes(perm)}
	got := c17Verdicts(k, g.Results())
	for i := 1; i <= k; i++ {
		vassert(got[i] == want[i], "verdict = reachability from the root over uses; owned by an unused object = quiet; independent of node numbering")
	}
	vobserve("v1", got[1])
	vreach("end")
}

// The same through Merge: node list handed over in any order, optionally twice.
func c17Merge(k, maxUses int) {
	s := c17Make(k, maxUses)
	want := s.expected()
	order := c17Perm(k)
	base := s.nodes(c17Identity(k))
	var list []Node
	list = append(list, base[0])
	for i := 1; i <= k; i++ {
		list = append(list, base[order[i]])
	}
	g := &SerializedGraph{}
	g.Merge(list)
	if nondetBool() {
		// repeating the analysis: merging the same nodes again changes nothing
		again := s.nodes(c17Identity(k))
		g.Merge(again)
	}
	got := c17Verdicts(k, g.Results())
	for i := 1; i <= k; i++ {
		vassert(got[i] == want[i], "verdict after Merge = documented rule, independent of the order of the merged nodes and of repeating the merge")
	}
	vreach("end")
}

// Adding a uses-edge out of a used object never removes an object from Used.
func c17Monotone(k, maxUses int) {
	s := c17Make(k, maxUses)
	g := &SerializedGraph{nodes: s.nodes(c17Identity(k))}
	before := c17Verdicts(k, g.Results())
	from := vchoose(k + 1)
	to := 1 + vchoose(k)
	vassume(from == 0 || before[from] == 0)
	nodes := s.nodes(c17Identity(k))
	nodes[from].uses = append(nodes[from].uses, NodeID(to))
	g2 := &SerializedGraph{nodes: nodes}
	after := c17Verdicts(k, g2.Results())
	for i := 1; i <= k; i++ {
		if before[i] == 0 {
			vassert(after[i] == 0, "a used object stays used when a reference from used code is added")
		}
	}
	vreach("end")
}

func Harness_C17_results_k3()  { c17Results(3, 3) }
func Harness_C17_results_k4()  { c17Results(4, 2) }
func Harness_C17_merge_k3()    { c17Merge(3, 3) }
func Harness_C17_merge_k4()    { c17Merge(4, 2) }
func Harness_C17_monotone_k3() { c17Monotone(3, 3) }
