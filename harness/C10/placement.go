package lintcmd

// C10 (attachment): a line directive suppresses the problems on the line of
// the code its comment is attached to — and no others.
// Real code executed end to end, inside the engine: go/parser on the
// generated file, ast.NewCommentMap and lint.ParseDirectives, the runner's
// serializeDirective (report.DisplayPosition), parseDirectives, filterIgnored.
// Enumerated by forking: where the directive comment is placed (own line
// above a statement with or without a blank line before it, end of a
// statement's line, first / middle / last line of a longer comment block,
// above the function, above a declaration in a block) and on which line the
// problem is.

import (
	"go/ast"
	"go/parser"
	"go/token"
	_ "unsafe"

	"honnef.co/go/tools/analysis/lint"
	"honnef.co/go/tools/lintcmd/runner"
)

//go:linkname c10Serialize honnef.co/go/tools/lintcmd/runner.serializeDirective
func c10Serialize(dir lint.Directive, fset *token.FileSet) runner.SerializedDirective

const c10Dtext = "//lint:ignore SA1000 reason"

type c10Placement struct {
	src    string
	target int // line whose problems the directive suppresses
}

// every placement puts the directive into a small function with one
// statement per line; target is the line of the code the comment belongs to
var c10Placements = []c10Placement{
	// 0: own line directly above a statement
	{"package p\n\nfunc f() {\n\ta()\n\t" + c10Dtext + "\n\tb()\n\tc()\n}\n", 6},
	// 1: own line above a statement, blank line before the comment
	{"package p\n\nfunc f() {\n\ta()\n\n\t" + c10Dtext + "\n\tb()\n\tc()\n}\n", 7},
	// 2: at the end of a statement's line
	{"package p\n\nfunc f() {\n\ta()\n\tb() " + c10Dtext + "\n\tc()\n}\n", 5},
	// 3: first line of a two-line comment block directly above a statement
	{"package p\n\nfunc f() {\n\ta()\n\t" + c10Dtext + "\n\t// explanation\n\tb()\n\tc()\n}\n", 7},
	// 4: last line of a two-line comment block directly above a statement
	{"package p\n\nfunc f() {\n\ta()\n\t// explanation\n\t" + c10Dtext + "\n\tb()\n\tc()\n}\n", 7},
	// 5: middle line of a three-line block
	{"package p\n\nfunc f() {\n\ta()\n\t// one\n\t" + c10Dtext + "\n\t// two\n\tb()\n\tc()\n}\n", 8},
	// 6: above the first statement of the body
	{"package p\n\nfunc f() {\n\t" + c10Dtext + "\n\ta()\n\tb()\n}\n", 5},
	// 7: in the function's doc comment
	{"package p\n\n// f does things.\n" + c10Dtext + "\nfunc f() {\n\ta()\n}\n", 5},
	// 8: above a variable declaration inside a block
	{"package p\n\nvar (\n\tx = 1\n\t" + c10Dtext + "\n\ty = 2\n\tz = 3\n)\n", 6},
	// 9: above an if statement (the problem is on the if line, not in its body)
	{"package p\n\nfunc f() {\n\ta()\n\t" + c10Dtext + "\n\tif b() {\n\t\tc()\n\t}\n}\n", 6},
	// 10: two stacked directives above a statement (this one first)
	{"package p\n\nfunc f() {\n\ta()\n\t" + c10Dtext + "\n\t//lint:ignore ST1000 other\n\tb()\n\tc()\n}\n", 7},
}

func Harness_C10_placement() {
	pl := c10Placements[vchoose(len(c10Placements))]
	fset := token.NewFileSet()
	f, err := parser.ParseFile(fset, "/src/p/a.go", pl.src, parser.ParseComments)
	vassert(err == nil, "harness: generated file parses")
	dirs := lint.ParseDirectives([]*ast.File{f}, fset)
	var res runner.ResultData
	for _, d := range dirs {
		res.Directives = append(res.Directives, c10Serialize(d, fset))
	}
	// one SA1000 problem on a chosen line of the file
	nLines := 0
	for i := 0; i < len(pl.src); i++ {
		if pl.src[i] == '\n' {
			nLines++
		}
	}
	line := 1 + vchoose(nLines)
	p := c10Diag("/src/p/a.go", line, "SA1000")
	allowed := map[caseFoldedString]bool{makeCaseFoldedString("SA1000"): true, makeCaseFoldedString("ST1000"): true}
	out, err := filterIgnored([]diagnostic{p}, res, allowed)
	vassert(err == nil, "filterIgnored does not fail")
	vassert(len(out) >= 1, "the problem is passed through")
	if len(out) >= 1 {
		vassert((out[0].Severity == severityIgnored) == (line == pl.target), "a line directive suppresses exactly the problems on the line of the code its comment is attached to")
	}
	vobserve("placement", pl.target)
	vreach("end")
}
