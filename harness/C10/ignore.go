package lintcmd

// C10 (kernel): serialized directives + problems -> suppressed / reported.
// Real code executed: filterIgnored (incl. couldHaveMatched), parseDirectives,
// lineIgnore.match, fileIgnore.match, makeCaseFoldedString(s) (strings.ToLower),
// path/filepath.Match. Arguments are produced from the directive text with
// strings.Split(text, " "), which is what lint.parseDirective does.
// All inputs are choices from small vocabularies, enumerated by forking.

import (
	"go/token"
	"strings"

	"honnef.co/go/tools/lintcmd/runner"
)

func c10Choose(n int) int { return vchoose(n) }

type c10Dir struct {
	cmd    string // ignore | file-ignore
	file   string
	line   int
	checks string // comma separated
	reason int    // 0 absent, 1 "r", 2 two spaces then "r" (empty field before the reason)
}

func (d c10Dir) serialized(idx int) runner.SerializedDirective {
	text := d.cmd + " " + d.checks
	switch d.reason {
	case 1:
		text += " r"
	case 2:
		text += "  r"
	}
	fields := strings.Split(text, " ")
	return runner.SerializedDirective{
		Command:           fields[0],
		Arguments:         fields[1:],
		DirectivePosition: token.Position{Filename: d.file, Line: 100 + idx, Column: 1},
		NodePosition:      token.Position{Filename: d.file, Line: d.line, Column: 1},
	}
}

// c10Glob: shell-glob semantics for check names, case-insensitive: '*'
// matches any run of characters, '?' exactly one, '[a-z]' / '[abc]' one
// character of the class.
func c10Glob(pat, cat string) bool {
	return c10GlobRec(strings.ToLower(pat), strings.ToLower(cat))
}

func c10GlobRec(pat, s string) bool {
	if pat == "" {
		return s == ""
	}
	switch pat[0] {
	case '*':
		for k := 0; k <= len(s); k++ {
			if c10GlobRec(pat[1:], s[k:]) {
				return true
			}
		}
		return false
	case '?':
		return s != "" && c10GlobRec(pat[1:], s[1:])
	case '[':
		end := strings.IndexByte(pat, ']')
		if end < 0 || s == "" {
			return false
		}
		class := pat[1:end]
		ok := false
		for i := 0; i < len(class); i++ {
			if i+2 < len(class) && class[i+1] == '-' {
				if class[i] <= s[0] && s[0] <= class[i+2] {
					ok = true
				}
				i += 2
			} else if class[i] == s[0] {
				ok = true
			}
		}
		return ok && c10GlobRec(pat[end+1:], s[1:])
	}
	return s != "" && pat[0] == s[0] && c10GlobRec(pat[1:], s[1:])
}

func c10IsGlob(n string) bool { return strings.ContainsAny(n, "*?[") }

func c10Diag(file string, line int, cat string) diagnostic {
	var d diagnostic
	d.Position = token.Position{Filename: file, Line: line, Column: 3}
	d.Category = cat
	d.Message = "problem " + cat
	return d
}

func c10Check(diags []diagnostic, dirs []c10Dir, enabled map[string]bool) {
	allowed := map[caseFoldedString]bool{}
	for name, on := range enabled {
		if on {
			allowed[makeCaseFoldedString(name)] = true
		}
	}
	var res runner.ResultData
	for i, d := range dirs {
		res.Directives = append(res.Directives, d.serialized(i))
	}
	in := append([]diagnostic(nil), diags...)
	out, err := filterIgnored(in, res, allowed)
	vassert(err == nil, "filterIgnored does not fail")

	// --- the documented predicate ---
	wantIgnored := make([]bool, len(diags))
	type extra struct {
		cat  string
		line int
		file string
	}
	var wantMalformed, wantUseless []extra
	uselessUnspecified := false
	uselessOrderFinding := false
	for di, d := range dirs {
		if d.reason == 0 {
			wantMalformed = append(wantMalformed, extra{"compile", d.line, d.file})
			continue
		}
		names := strings.Split(d.checks, ",")
		matchedAny := false
		for i, p := range diags {
			if p.Position.Filename != d.file {
				continue
			}
			if d.cmd == "ignore" && p.Position.Line != d.line {
				continue
			}
			for _, n := range names {
				if c10Glob(n, p.Category) {
					wantIgnored[i] = true
					matchedAny = true
				}
			}
		}
		if d.cmd == "ignore" && !matchedAny {
			// reported unless it only names disabled checks or U1000
			names := names
			onlyDisabledOrU1000 := true
			seenU1000 := false
			for _, n := range names {
				if c10IsGlob(n) {
					uselessUnspecified = true // glob names: outside the claim for this clause
				}
				if strings.ToLower(n) == "u1000" {
					seenU1000 = true
					continue
				}
				if enabled[strings.ToUpper(n)] {
					onlyDisabledOrU1000 = false
					if seenU1000 {
						uselessOrderFinding = true
					}
				}
			}
			if !onlyDisabledOrU1000 {
				wantUseless = append(wantUseless, extra{"staticcheck", 100 + di, d.file})
			}
		}
	}

	// problems come back unchanged, in order, with only the severity adjusted
	vassert(len(out) >= len(diags), "no problem is dropped")
	if len(out) < len(diags) {
		return
	}
	for i, p := range diags {
		o := out[i]
		vassert(o.Position == p.Position && o.Category == p.Category && o.Message == p.Message, "problems are passed through unchanged and in order")
		vassert((o.Severity == severityIgnored) == wantIgnored[i], "a problem is suppressed iff a well-formed directive on its file (and line) names its check")
	}
	rest := out[len(diags):]
	nMal, nUseless := 0, 0
	for _, o := range rest {
		vassert(o.Severity != severityIgnored, "directive diagnostics are never suppressed")
		switch o.Category {
		case "compile":
			nMal++
			ok := false
			for _, w := range wantMalformed {
				if w.file == o.Position.Filename && w.line == o.Position.Line {
					ok = true
				}
			}
			vassert(ok, "a malformed-directive error is reported only for a directive without a reason, at its node")
		case "staticcheck":
			nUseless++
		default:
			vassert(false, "no other diagnostics are added")
		}
	}
	vassert(nMal == len(wantMalformed), "every directive without a reason yields exactly one error")
	if !uselessUnspecified {
		if uselessOrderFinding {
			vassert(nUseless == len(wantUseless), "useless line directive listing U1000 before an enabled check is reported")
		} else {
			vassert(nUseless == len(wantUseless), "a line directive that suppresses nothing is reported unless it only names disabled checks or U1000")
		}
	}
	vobserve("n", len(out))
	vreach("end")
}

var c10Cats = []string{"SA1000", "S1000", "ST1000"}
var c10Files = []string{"a.go", "b.go"}
var c10Cmds = []string{"ignore", "file-ignore"}
var c10First = []string{"SA1000", "sa1000", "SA*", "S*", "*", "ST1000", "U1000", "SA1001", "XX9999", "SA100?", "S[A-T]1000", "S*0", "?1000", "S[AT]100[0-5]"}
var c10Second = []string{"", ",SA1000", ",U1000", ",ST1000", ",XX9999"}

// one problem x one directive, full cross product
func Harness_C10_single() {
	p := c10Diag(c10Files[c10Choose(2)], 1+c10Choose(2), c10Cats[c10Choose(3)])
	d := c10Dir{cmd: c10Cmds[c10Choose(2)], file: "a.go", line: 1 + c10Choose(2),
		checks: c10First[c10Choose(len(c10First))] + c10Second[c10Choose(len(c10Second))], reason: c10Choose(3)}
	enabled := map[string]bool{"SA1000": nondetBool(), "ST1000": nondetBool(), "S1000": true, "SA1001": true}
	c10Check([]diagnostic{p}, []c10Dir{d}, enabled)
}

var c10Lists = []string{"SA1000", "ST1000", "*", "SA1000,ST1000", "S*", "U1000,SA1000"}

// two problems (possibly on the same line) x two directives
func Harness_C10_pair() {
	p0 := c10Diag("a.go", 1, "SA1000")
	p1 := c10Diag("a.go", 1+c10Choose(2), c10Cats[2*c10Choose(2)])
	d0 := c10Dir{cmd: c10Cmds[c10Choose(2)], file: "a.go", line: 1, checks: c10Lists[c10Choose(len(c10Lists))], reason: c10Choose(2)}
	dirs := []c10Dir{d0}
	if nondetBool() {
		d1 := c10Dir{cmd: c10Cmds[c10Choose(2)], file: "a.go", line: 1 + c10Choose(2), checks: c10Lists[c10Choose(3)], reason: c10Choose(2)}
		if nondetBool() {
			dirs = []c10Dir{d1, d0}
		} else {
			dirs = append(dirs, d1)
		}
	}
	enabled := map[string]bool{"SA1000": nondetBool(), "ST1000": nondetBool(), "S1000": true, "SA1001": true}
	c10Check([]diagnostic{p0, p1}, dirs, enabled)
}
