package unused

// C10 (U1000 clause): an object carrying //lint:ignore U1000 counts as used,
// and so do the objects reachable only through it — exactly as if used code
// referred to it. Real code: go/parser (with comments), go/types,
// lint.ParseDirectives, the ignore handling of graph.entry, Results; programs
// from ../C17/ugen.go.
// Per instance: the directive above one of {f1, f2, f3, v1, c1} versus no
// directive and a reference to that object from the exported function; the
// slot inside f1 (what f1 refers to) ranges over all 20 reference forms.

func Harness_C10_u1000_ignore() {
	type target struct {
		name string
		form int // the reference form that mentions the object
	}
	targets := []target{{"f1", 1}, {"f2", 2}, {"f3", 3}, {"v1", 4}, {"c1", 6}}
	t := targets[vchoose(len(targets))]
	chunk := -1
	for ci, c := range ugSkeleton {
		if c.name == t.name {
			chunk = ci
		}
	}
	var slots [ugNSlots]int
	slots[1] = vchoose(len(ugForms)) // the body of f1

	ugIgnore.on, ugIgnore.chunk = true, chunk
	ign := ugBase(slots)
	ugIgnore.on = false

	slots[3] = t.form
	ref := ugBase(slots)

	// the reference form itself may mention helpers (use); compare the
	// objects of the skeleton other than the helper
	for k, v := range ref.verdict {
		if k.name == "use" || k.name == "" {
			continue
		}
		w, ok := ign.verdict[k]
		vassert(ok && v == w, "an object's verdict under //lint:ignore U1000 differs from its verdict when used code refers to the ignored object")
	}
	k0 := ugKey{chunk, 0, t.name}
	vassert(ign.verdict[k0] == 1, "an object carrying //lint:ignore U1000 counts as used")
	vreach("end")
}
