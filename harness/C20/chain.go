package lintcmd

// C20 (chain): the effective version that gates a version-restricted problem
// follows the -go flag, the module's go directive and the file's //go:build
// go1.N line.
// Real code executed end to end inside the engine: versionFlag.Set (the -go
// flag), loader.Load / loadFromSource (types.Config.GoVersion), go/parser
// (the file's build constraint), go/types (types.Info.FileVersions,
// types.Package.GoVersion), code.LanguageVersion / code.StdlibVersion and
// report.Report with each of the four bounds.
// Flag, module and file versions are choices at the documented thresholds;
// the bound is go1.N with symbolic digits.

import (
	"go/ast"
	"go/build"
	"go/token"
	"os"

	"golang.org/x/tools/go/analysis"
	"golang.org/x/tools/go/packages"

	"honnef.co/go/tools/analysis/facts/tokenfile"
	"honnef.co/go/tools/analysis/report"
	"honnef.co/go/tools/go/loader"
)

// c20cVersion returns "go1.<minor>" with symbolic digits and the minor as a number.
func c20cVersion() (string, int) {
	d1 := nondetByte()
	vassume(d1 >= '0')
	vassume(d1 <= '9')
	if nondetBool() {
		return "go1." + string([]byte{d1}), int(d1 - '0')
	}
	vassume(d1 != '0')
	d2 := nondetByte()
	vassume(d2 >= '0')
	vassume(d2 <= '9')
	return "go1." + string([]byte{d1, d2}), 10*int(d1-'0') + int(d2-'0')
}

var c20cMinors = []int{9, 20, 21, 22, 26}

func c20cMinorText(m int) string {
	if m < 10 {
		return string([]byte{'0' + byte(m)})
	}
	return string([]byte{'0' + byte(m/10), '0' + byte(m%10)})
}

func Harness_C20_chain() {
	// go/build's package initialisation is not run by the engine: give the
	// default context the release tags it has natively (go1.1 .. go1.26)
	if len(build.Default.ReleaseTags) == 0 {
		for i := 1; i <= 26; i++ {
			build.Default.ReleaseTags = append(build.Default.ReleaseTags, "go1."+c20cMinorText(i))
		}
	}
	// -go flag: absent ("module") or 1.K, written without the "go" prefix as on the command line
	var vf versionFlag = "module"
	base := 0
	k := vchoose(len(c20cMinors) + 1)
	if k < len(c20cMinors) {
		err := vf.Set("1." + c20cMinorText(c20cMinors[k]))
		vassert(err == nil, "a flag of the form 1.N is accepted")
		base = c20cMinors[k]
	}
	// module go directive
	m := c20cMinors[vchoose(len(c20cMinors))]
	if k == len(c20cMinors) {
		base = m
	}
	// file build constraint
	f := -1
	src := "package p\n\nvar X = 1\n"
	if j := vchoose(len(c20cMinors) + 1); j < len(c20cMinors) {
		f = c20cMinors[j]
		src = "//go:build go1." + c20cMinorText(f) + "\n\n" + src
	}
	dir := vtempdir()
	path := dir + "/a.go"
	vassert(os.WriteFile(path, []byte(src), 0o666) == nil, "harness: file written")
	spec := &loader.PackageSpec{
		ID: "example.com/p", PkgPath: "example.com/p", Name: "p",
		GoFiles: []string{path}, CompiledGoFiles: []string{path},
		Module: &packages.Module{Path: "example.com/p", GoVersion: "1." + c20cMinorText(m)},
	}
	pkg, _, err := loader.Load(spec, &loader.Options{GoVersion: string(vf)})
	vassert(err == nil && len(pkg.Errors) == 0, "harness: the package loads without errors")

	// the documented effective versions
	lang, std := base, base
	if f >= 0 {
		lang = max(f, 21) // go/types: a tagged file gets max(file version, go1.21)
		if base < 21 {
			std = f
		} else if f > base {
			std = f
		}
	}

	files := map[*token.File]*ast.File{}
	for _, af := range pkg.Syntax {
		files[pkg.Fset.File(af.Pos())] = af
	}
	reported := 0
	pass := &analysis.Pass{
		Fset: pkg.Fset, Files: pkg.Syntax, Pkg: pkg.Types, TypesInfo: pkg.TypesInfo,
		ResultOf: map[*analysis.Analyzer]any{tokenfile.Analyzer: files},
		Report:   func(analysis.Diagnostic) { reported++ },
	}
	node := pkg.Syntax[0].Name
	bStr, b := c20cVersion()
	var opt report.Option
	var want bool
	switch vchoose(4) {
	case 0:
		opt, want = report.MinimumLanguageVersion(bStr), b <= lang
	case 1:
		opt, want = report.MaximumLanguageVersion(bStr), lang <= b
	case 2:
		opt, want = report.MinimumStdlibVersion(bStr), b <= std
	default:
		opt, want = report.MaximumStdlibVersion(bStr), std <= b
	}
	report.Report(pass, node, "msg", opt)
	vassert((reported == 1) == want, "a version-restricted problem is reported iff the effective version (flag, go directive, build constraint) lies in the range")
	vobserve("base", base)
	vreach("end")
}
