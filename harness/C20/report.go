package report

// C20: a problem restricted to a range of Go versions is reported exactly
// when the effective version lies in the range.
//
// Real code executed: Report, the four option setters, code.LanguageVersion,
// code.StdlibVersion, code.File, go/version.Compare (+ internal/gover),
// DisplayPosition, token.FileSet lookups.
// Symbolic: the decimal digits of the module version M, the file's
// //go:build version F (or absent), the language version L that go/types
// recorded for the file, and the bound B; each is "go1." + one or two digits
// (shape enumerated by forking). Bound kind enumerated.

import (
	"go/ast"
	"go/token"
	"go/types"

	"golang.org/x/tools/go/analysis"
	"honnef.co/go/tools/analysis/facts/tokenfile"
)

// c20Version returns "go1.<minor>" with symbolic digits and the minor as a number.
func c20Version() (string, int) {
	d1 := nondetByte()
	vassume(d1 >= '0')
	vassume(d1 <= '9')
	if nondetBool() {
		return "go1." + string([]byte{d1}), int(d1 - '0')
	}
	vassume(d1 != '0') // no leading zero
	d2 := nondetByte()
	vassume(d2 >= '0')
	vassume(d2 <= '9')
	return "go1." + string([]byte{d1, d2}), 10*int(d1-'0') + int(d2-'0')
}

func c20Run(kind int) {
	mStr, m := c20Version()
	lStr, l := c20Version()
	bStr, b := c20Version()
	hasF := nondetBool()
	fStr, f := "", 0
	if hasF {
		fStr, f = c20Version()
	}

	fset := token.NewFileSet()
	tf := fset.AddFile("a.go", -1, 100)
	file := &ast.File{Name: ast.NewIdent("p"), GoVersion: fStr, Package: tf.Pos(0), FileStart: tf.Pos(0), FileEnd: tf.Pos(100)}
	node := &ast.Ident{NamePos: tf.Pos(10), Name: "x"}
	pkg := types.NewPackage("example.com/p", "p")
	vsetfield(pkg, "goVersion", mStr)
	reported := 0
	pass := &analysis.Pass{
		Fset:      fset,
		Pkg:       pkg,
		TypesInfo: &types.Info{FileVersions: map[*ast.File]string{file: lStr}},
		ResultOf:  map[*analysis.Analyzer]any{tokenfile.Analyzer: map[*token.File]*ast.File{tf: file}},
		Report:    func(analysis.Diagnostic) { reported++ },
	}

	var opt Option
	switch kind {
	case 0:
		opt = MinimumLanguageVersion(bStr)
	case 1:
		opt = MaximumLanguageVersion(bStr)
	case 2:
		opt = MinimumStdlibVersion(bStr)
	default:
		opt = MaximumStdlibVersion(bStr)
	}
	Report(pass, node, "msg", opt)

	// the documented effective standard-library version
	std := m
	if hasF {
		if m < 21 {
			std = f
		} else if f > m {
			std = f
		}
	}
	var want bool
	switch kind {
	case 0:
		want = b <= l
	case 1:
		want = l <= b
	case 2:
		want = b <= std
	default:
		want = std <= b
	}
	vobserve("reported", reported)
	vassert(reported <= 1, "at most one diagnostic")
	switch kind {
	case 0:
		vassert((reported == 1) == want, "minimum language version: reported iff bound <= file language version")
	case 1:
		vassert((reported == 1) == want, "maximum language version: reported iff file language version <= bound")
	case 2:
		vassert((reported == 1) == want, "minimum stdlib version: reported iff bound <= effective stdlib version")
	default:
		vassert((reported == 1) == want, "maximum stdlib version: reported iff effective stdlib version <= bound")
	}
	vreach("end")
}

func Harness_C20_min_language() { c20Run(0) }
func Harness_C20_max_language() { c20Run(1) }
func Harness_C20_min_stdlib()   { c20Run(2) }
func Harness_C20_max_stdlib()   { c20Run(3) }

// No restriction at all: always reported, whatever the versions.
func Harness_C20_unrestricted() {
	mStr, _ := c20Version()
	lStr, _ := c20Version()
	fset := token.NewFileSet()
	tf := fset.AddFile("a.go", -1, 100)
	file := &ast.File{Name: ast.NewIdent("p"), Package: tf.Pos(0), FileStart: tf.Pos(0), FileEnd: tf.Pos(100)}
	node := &ast.Ident{NamePos: tf.Pos(10), Name: "x"}
	pkg := types.NewPackage("example.com/p", "p")
	vsetfield(pkg, "goVersion", mStr)
	reported := 0
	pass := &analysis.Pass{
		Fset:      fset,
		Pkg:       pkg,
		TypesInfo: &types.Info{FileVersions: map[*ast.File]string{file: lStr}},
		ResultOf:  map[*analysis.Analyzer]any{tokenfile.Analyzer: map[*token.File]*ast.File{tf: file}},
		Report:    func(analysis.Diagnostic) { reported++ },
	}
	Report(pass, node, "msg")
	vassert(reported == 1, "unrestricted problem is always reported")
	vreach("end")
}
