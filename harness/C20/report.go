package report

// C20: a problem restricted to a range of Go versions is reported exactly
// when the effective version lies in the range.
//
// Real code executed: Report, the four option setters, code.LanguageVersion,
// code.StdlibVersion, code.File, go/version.Compare (+ internal/gover),
// DisplayPosition, token.FileSet lookups.
// Symbolic: the decimal digits of the module version M, the file's
// //go:build version F (or absent), the language version L that go/types
// recorded for the file, and the bound B; each is "go1." + one or two digits
// (shape enumerated by forking). Bound kind enumerated.

import (
	"go/ast"
	"go/token"
	"go/types"

	"golang.org/x/tools/go/analysis"
	"honnef.co/go/tools/analysis/facts/tokenfile"
)

// c20Version returns "go1.<minor>" with symbolic digits and the minor as a number.
func c20Version() (string, int) {
	d1 := nondetByte()
	vassume(d1 >= '0')
	vassume(d1 <= '9')
	if nondetBool() {
		return "go1." + string([]byte{d1}), int(d1 - '0')
	}
	vassume(d1 != '0') // no leading zero
	d2 := nondetByte()
	vassume(d2 >= '0')
	vassume(d2 <= '9')
	return "go1." + string([]byte{d1, d2}), 10*int(d1-'0') + int(d2-'0')
}

func c20Run(kind int) {
	mStr, m := c20Version()
	lStr, l := c20Version()
	bStr, b := c20Version()
	hasF := nondetBool()
	fStr, f := "", 0
	if hasF {
		fStr, f = c20Version()
	}

	fset := token.NewFileSet()
	tf := fset.AddFile("a.go", -1, 100)
	file := &ast.File{Name: ast.NewIdent("p"), GoVersion: fStr, Package: tf.Pos(0), FileStart: tf.Pos(0), FileEnd: tf.Pos(100)}
	node := &ast.Ident{NamePos: tf.Pos(10), Name: "x"}
	pkg := types.NewPackage("example.com/p", "p")
	vsetfield(pkg, "goVersion", mStr)
	reported := 0
	pass := &analysis.Pass{
		Fset:      fset,
		Pkg:       pkg,
		TypesInfo: &types.Info{FileVersions: map[*ast.File]string{file: lStr}},
		ResultOf:  map[*analysis.Analyzer]any{tokenfile.Analyzer: map[*token.File]*ast.File{tf: file}},
		Report:    func(analysis.Diagnostic) { reported++ },
	}

	var opt Option
	switch kind {
	case 0:
		opt = MinimumLanguageVersion(bStr)
	case 1:
		opt = MaximumLanguageVersion(bStr)
	case 2:
		opt = MinimumStdlibVersion(bStr)
	default:
		opt = MaximumStdlibVersion(bStr)
	}
	Report(pass, node, "msg", opt)

	// the documented effective standard-library version
	std := m
	if hasF {
		if m < 21 {
			std = f
		} else if f > m {
			std = f
		}
	}
	var want bool
	switch kind {
	case 0:
		want = b <= l
	case 1:
		want = l <= b
	case 2:
		want = b <= std
	default:
		want = std <= b
	}
	vobserve("reported", reported)
	vassert(reported <= 1, "at most one diagnostic")
	switch kind {
	case 0:
		vassert((reported == 1) == want, "minimum language version: reported iff bound <= file language version")
	case 1:
		vassert((reported == 1) == want, "maximum language version: reported iff file language version <= bound")
	case 2:
		vassert((reported == 1) == want, "minimum stdlib version: reported iff bound <= effective stdlib version")
	default:
		vassert((reported == 1) == want, "maximum stdlib version: reported iff effective stdlib version <= bound")
	}
	vreach("end")
}

func Harness_C20_min_language() { c20Run(0) }
func Harness_C20_max_language() { c20Run(1) }
func Harness_C20_min_stdlib()   { c20Run(2) }
func Harness_C20_max_stdlib()   { c20Run(3) }

// No restriction at all: always reported, whatever the versions.
func Harness_C20_unrestricted() {
	mStr, _ := c20Version()
	lStr, _ := c20Version()
	fset := token.NewFileSet()
	tf := fset.AddFile("a.go", -1, 100)
	file := &ast.File{Name: ast.NewIdent("p"), Package: tf.Pos(0), FileStart: tf.Pos(0), FileEnd: tf.Pos(100)}
	node := &ast.Ident{NamePos: tf.Pos(10), Name: "x"}
	pkg := types.NewPackage("example.com/p", "p")
	vsetfield(pkg, "goVersion", mStr)
	reported := 0
	pass := &analysis.Pass{
		Fset:      fset,
		Pkg:       pkg,
		TypesInfo: &types.Info{FileVersions: map[*ast.File]string{file: lStr}},
		ResultOf:  map[*analysis.Analyzer]any{tokenfile.Analyzer: map[*token.File]*ast.File{tf: file}},
		Report:    func(analysis.Diagnostic) { reported++ },
	}
	Report(pass, node, "msg")
	vassert(reported == 1, "unrestricted problem is always reported")
	vreach("end")
}

// ---- sequences of reports and combined options ----

type c20Env struct {
	pass     *analysis.Pass
	node     ast.Node
	l, std   int
	reported *int
}

func c20Setup() *c20Env {
	mStr, m := c20Version()
	lStr, l := c20Version()
	hasF := nondetBool()
	fStr, f := "", 0
	if hasF {
		fStr, f = c20Version()
	}
	fset := token.NewFileSet()
	tf := fset.AddFile("a.go", -1, 100)
	file := &ast.File{Name: ast.NewIdent("p"), GoVersion: fStr, Package: tf.Pos(0), FileStart: tf.Pos(0), FileEnd: tf.Pos(100)}
	node := &ast.Ident{NamePos: tf.Pos(10), Name: "x"}
	pkg := types.NewPackage("example.com/p", "p")
	vsetfield(pkg, "goVersion", mStr)
	reported := new(int)
	pass := &analysis.Pass{
		Fset:      fset,
		Pkg:       pkg,
		TypesInfo: &types.Info{FileVersions: map[*ast.File]string{file: lStr}},
		ResultOf:  map[*analysis.Analyzer]any{tokenfile.Analyzer: map[*token.File]*ast.File{tf: file}},
		Report:    func(analysis.Diagnostic) { *reported++ },
	}
	std := m
	if hasF {
		if m < 21 {
			std = f
		} else if f > m {
			std = f
		}
	}
	return &c20Env{pass, node, l, std, reported}
}

// c20Bound returns an option of the given kind with a symbolic bound and
// whether the documented predicate admits the report.
func (e *c20Env) c20Bound(kind int, symbolic bool) (Option, bool) {
	var bStr string
	var b int
	if symbolic {
		bStr, b = c20Version()
	} else {
		i := vchoose(4)
		bStr, b = []string{"go1.0", "go1.9", "go1.10", "go1.99"}[i], []int{0, 9, 10, 99}[i]
	}
	switch kind {
	case 0:
		return MinimumLanguageVersion(bStr), b <= e.l
	case 1:
		return MaximumLanguageVersion(bStr), e.l <= b
	case 2:
		return MinimumStdlibVersion(bStr), b <= e.std
	default:
		return MaximumStdlibVersion(bStr), e.std <= b
	}
}

// A report's bounds never carry over to the next report.
func Harness_C20_sequence() {
	e := c20Setup()
	// the most restrictive bound of each kind
	var o1 Option
	switch vchoose(4) {
	case 0:
		o1 = MinimumLanguageVersion("go1.99")
	case 1:
		o1 = MaximumLanguageVersion("go1.0")
	case 2:
		o1 = MinimumStdlibVersion("go1.99")
	default:
		o1 = MaximumStdlibVersion("go1.0")
	}
	Report(e.pass, e.node, "first", o1)
	*e.reported = 0
	k2 := vchoose(5)
	if k2 == 4 {
		Report(e.pass, e.node, "second")
		vassert(*e.reported == 1, "an unrestricted problem is not reported after a restricted one")
	} else {
		o2, want := e.c20Bound(k2, true)
		Report(e.pass, e.node, "second", o2)
		vassert((*e.reported == 1) == want, "the second of two reports does not follow its own bound alone")
	}
	vreach("end")
}

// Two bounds on one report: reported iff both admit it.
func Harness_C20_two_options() {
	e := c20Setup()
	k1 := vchoose(4)
	k2 := vchoose(4)
	vassume(k1 < k2)
	o1, w1 := e.c20Bound(k1, true)
	o2, w2 := e.c20Bound(k2, false)
	Report(e.pass, e.node, "msg", o1, o2)
	vassert((*e.reported == 1) == (w1 && w2), "a report with two bounds is not reported exactly when both admit it")
	vreach("end")
}
