package lintcmd

// C11 (kernel): check selection, config inheritance, exit status.
// Real code executed: config.mergeConfigs, Config.Merge, config.mergeLists,
// config.normalizeList (reached through go:linkname), makeCaseFoldedStrings,
// filterAnalyzerNames, list.Set, Command.printDiagnostics (severity / exit
// status), textFormatter.
// All inputs are tokens from small vocabularies, enumerated by forking.

import (
	"strings"
	_ "unsafe"

	"honnef.co/go/tools/config"
)

//go:linkname c11MergeConfigs honnef.co/go/tools/config.mergeConfigs
func c11MergeConfigs(confs []config.Config) config.Config

//go:linkname c11NormalizeList honnef.co/go/tools/config.normalizeList
func c11NormalizeList(list []string) []string

func c11Choose(n int) int { return vchoose(n) }

var c11Analyzers = []string{"S1000", "S1001", "SA1000", "SA1001", "SA2000", "ST1000", "QF1001"}

func c11Category(name string) string {
	i := strings.IndexAny(name, "0123456789")
	if i < 0 {
		return name
	}
	return name[:i]
}

// c11Eval is the documented left-to-right evaluation of a check list.
func c11Eval(list []string) map[string]bool {
	allowed := map[string]bool{}
	for _, tok := range list {
		b := true
		t := strings.ToLower(tok)
		if len(t) > 1 && t[0] == '-' {
			b = false
			t = t[1:]
		}
		switch {
		case t == "*" || t == "all":
			for _, a := range c11Analyzers {
				allowed[strings.ToLower(a)] = b
			}
		case strings.HasSuffix(t, "*"):
			prefix := t[:len(t)-1]
			isCat := strings.IndexAny(prefix, "0123456789") < 0
			for _, a := range c11Analyzers {
				la := strings.ToLower(a)
				if isCat {
					if c11Category(la) == prefix { // S* matches S1000 but not SA1000
						allowed[la] = b
					}
				} else if strings.HasPrefix(la, prefix) {
					allowed[la] = b
				}
			}
		default:
			allowed[t] = b
		}
	}
	return allowed
}

func c11Names() []caseFoldedString {
	out := make([]caseFoldedString, len(c11Analyzers))
	for i, a := range c11Analyzers {
		out[i] = makeCaseFoldedString(a)
	}
	return out
}

func c11CompareAllowed(got map[caseFoldedString]bool, list []string, msg string) {
	want := c11Eval(list)
	for _, a := range c11Analyzers {
		vassert(got[makeCaseFoldedString(a)] == want[strings.ToLower(a)], msg)
	}
}

var c11Tokens = []string{"all", "*", "S*", "s*", "SA*", "SA1*", "ST*", "Q*", "S1000", "sa1000", "SA2000", "ST1000", "XX1000",
	"-all", "-S*", "-SA*", "-SA1*", "-S1000", "-SA1000", "-st1000", "-"}

// the -checks evaluation: lists of up to 3 tokens
func c11Selection(n int) {
	var list []string
	for i := 0; i < n; i++ {
		list = append(list, c11Tokens[c11Choose(len(c11Tokens))])
	}
	got := filterAnalyzerNames(c11Names(), makeCaseFoldedStrings(list))
	c11CompareAllowed(got, list, "allow-map = left-to-right evaluation of all / category globs / prefix globs / names / negation, case-insensitively")
	vreach("end")
}

var c11ConfTokens = []string{"inherit", "all", "-S1000", "S1000", "-SA*", "SA*", "-ST1000", "ST1000"}

func c11ConfList(maxLen, vocab int) []string {
	n := c11Choose(maxLen + 2) // 0 = unset (nil), 1 = empty list, else n-1 tokens
	if n == 0 {
		return nil
	}
	list := []string{}
	for i := 0; i < n-1; i++ {
		list = append(list, c11ConfTokens[c11Choose(vocab)])
	}
	return list
}

// expected merge: outermost first, each set list replaces the previous one with 'inherit' spliced
func c11Splice(prev, cur []string) []string {
	if cur == nil {
		return prev
	}
	out := []string{}
	for _, t := range cur {
		if t == "inherit" {
			out = append(out, prev...)
		} else {
			out = append(out, t)
		}
	}
	return out
}

// staticcheck.conf chain (default, then depth directories outermost first), then the command line
func c11Inheritance(depth, maxLen, vocab int) {
	def := []string{"all"}
	confs := []config.Config{{Checks: def}}
	want := def
	for i := 0; i < depth; i++ {
		l := c11ConfList(maxLen, vocab)
		confs = append(confs, config.Config{Checks: l})
		want = c11Splice(want, l)
	}
	merged := c11MergeConfigs(confs)
	merged.Checks = c11NormalizeList(merged.Checks)
	// command line: -checks (unset, or a list that may inherit)
	cl := c11ConfList(2, vocab)
	final := merged.Merge(config.Config{Checks: cl})
	want = c11Splice(want, cl)
	got := filterAnalyzerNames(c11Names(), makeCaseFoldedStrings(final.Checks))
	c11CompareAllowed(got, want, "checks applied = conf files merged outermost-first with inherit splicing, then -checks, evaluated left to right")
	vobserve("n", len(final.Checks))
	vreach("end")
}

var c11Cats = []string{"SA1000", "ST1000", "compile", "config", "staticcheck"}
var c11Fail = []string{"all", "SA*", "-SA1000", "ST1000", "sa1000"}
var c11Formats = []string{"text", "null", "sarif"}

// exit status and the set handed to the formatter
func c11Exit(nDiags int) {
	var diags []diagnostic
	anyFatal := false
	nPrinted := 0
	// -fail
	var failList []string
	nf := c11Choose(3)
	for i := 0; i < nf; i++ {
		failList = append(failList, c11Fail[c11Choose(len(c11Fail))])
	}
	failSet := c11Eval(failList)
	for i := 0; i < nDiags; i++ {
		var d diagnostic
		d.Category = c11Cats[c11Choose(len(c11Cats))]
		d.Position.Filename = "a.go"
		d.Position.Line = i + 1
		d.Position.Column = 1
		d.Message = "m"
		ignored := nondetBool()
		if ignored {
			d.Severity = severityIgnored
		}
		diags = append(diags, d)
		if !ignored {
			nPrinted++
			lc := strings.ToLower(d.Category)
			if failSet[lc] || lc == "compile" || lc == "config" || lc == "staticcheck" {
				anyFatal = true
			}
		}
	}
	cmd := &Command{}
	var fl list
	fl.Set(strings.Join(failList, ","))
	cmd.flags.fail = fl
	format := c11Formats[c11Choose(len(c11Formats))]
	cmd.flags.formatter = format
	var cs []*lintAnalyzer
	for _, a := range c11Analyzers {
		cs = append(cs, c11Analyzer(a))
	}
	vcapture()
	code := cmd.printDiagnostics(cs, diags)
	out := vcaptured()
	want := 0
	if anyFatal && format != "sarif" {
		want = 1
	}
	vobserve("code", code)
	vassert(code == want, "exit status is non-zero exactly when a non-ignored problem is in the -fail set or is a compile/config/directive error (SARIF: always zero)")
	if format == "text" {
		vassert(strings.Count(out, "\n") == nPrinted, "the text formatter prints exactly the non-ignored problems")
	}
	vreach("end")
}

func Harness_C11_selection_1() { c11Selection(1) }
func Harness_C11_selection_2() { c11Selection(2) }
func Harness_C11_selection_3() { c11Selection(3) }
func Harness_C11_inherit_d2()  { c11Inheritance(2, 2, 5) }
func Harness_C11_inherit_d2_full() { c11Inheritance(2, 2, 8) }
func Harness_C11_inherit_d3()  { c11Inheritance(3, 2, 4) }
func Harness_C11_exit_2()      { c11Exit(2) }
