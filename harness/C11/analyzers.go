package lintcmd

import (
	"golang.org/x/tools/go/analysis"
	"honnef.co/go/tools/analysis/lint"
)

type lintAnalyzer = lint.Analyzer

func c11Analyzer(name string) *lint.Analyzer {
	return &lint.Analyzer{Analyzer: &analysis.Analyzer{Name: name}, Doc: &lint.RawDocumentation{Title: name}}
}
