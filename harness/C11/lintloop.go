package lintcmd

// C11 / C12 (result loop of (*linter).lint): which runner results contribute
// problems, checked files and warnings.
//   - a package that failed (compile error, malformed configuration) yields
//     its errors as problems of category compile / config whether or not the
//     package was named on the command line (C11: exit status and printed
//     problems);
//   - the checked-file set of the run consists of the files of exactly the
//     packages that were analysed (initial, not failed, not skipped) (C12:
//     a run vetoes an 'all' problem only for files it checked);
//   - problems come from exactly the analysed packages, restricted to the
//     checks enabled for the package.
// Real code: (*linter).lint, failed, success, filterIgnored,
// filterAnalyzerNames; the runner is stubbed (../C17/lintstub.go).
// Symbolic: per result failed / initial / skipped, the kind of its error,
// whether its one problem's check is enabled.

import (
	"errors"
	"go/token"

	"golang.org/x/tools/go/analysis"
	"golang.org/x/tools/go/packages"

	"honnef.co/go/tools/analysis/lint"
	"honnef.co/go/tools/config"
	"honnef.co/go/tools/go/loader"
	"honnef.co/go/tools/lintcmd/runner"
)

type c11Res struct {
	failed, initial, skipped bool
	errKind                  int // 0 plain error, 1 packages.Error (type error), 2 packages.Error (parse error = config)
	enabled                  bool
	file                     string
}

func c11LintLoop(n int) {
	c17Results = nil
	c17Data = map[*loader.PackageSpec]runner.ResultData{}
	var rs []c11Res
	names := []string{"example.com/a", "example.com/b", "example.com/c"}
	for i := 0; i < n; i++ {
		var r c11Res
		r.failed = nondetBool()
		r.initial = nondetBool()
		r.skipped = nondetBool()
		r.enabled = nondetBool()
		r.file = "/src/" + names[i][len("example.com/"):] + "/f.go"
		spec := &loader.PackageSpec{PkgPath: names[i], ID: names[i], GoFiles: []string{r.file}}
		res := runner.Result{Package: spec, Initial: r.initial, Skipped: r.skipped, Failed: r.failed}
		res.Config = config.Config{Checks: []string{"SA1000"}}
		if !r.enabled {
			res.Config = config.Config{Checks: []string{"all", "-SA1000"}}
		}
		if r.failed {
			r.errKind = vchoose(3)
			switch r.errKind {
			case 0:
				res.Errors = []error{errors.New("boom " + names[i])}
			case 1:
				res.Errors = []error{packages.Error{Pos: r.file + ":3:4", Msg: "undefined: x " + names[i], Kind: packages.TypeError}}
			case 2:
				res.Errors = []error{packages.Error{Pos: r.file + ":1:1", Msg: "bad config " + names[i], Kind: packages.ParseError}}
			}
		}
		c17Data[spec] = runner.ResultData{Diagnostics: []runner.Diagnostic{{
			Position: token.Position{Filename: r.file, Line: 7, Column: 2},
			End:      token.Position{Filename: r.file, Line: 7, Column: 5},
			Category: "SA1000", Message: "problem in " + names[i],
		}}}
		c17Results = append(c17Results, res)
		rs = append(rs, r)
	}
	strat := lint.MergeIfAny
	if nondetBool() {
		strat = lint.MergeIfAll
	}
	l := &linter{
		analyzers: map[caseFoldedString]*lint.Analyzer{
			makeCaseFoldedString("SA1000"): {Analyzer: &analysis.Analyzer{Name: "SA1000"}, Doc: &lint.RawDocumentation{MergeIf: strat}},
			makeCaseFoldedString("U1000"):  {Analyzer: &analysis.Analyzer{Name: "U1000"}, Doc: &lint.RawDocumentation{}},
		},
	}
	out, err := l.lint(nil, &packages.Config{}, []string{"./..."})
	vassert(err == nil, "lint returns no error")

	has := func(cat, msg string) int {
		k := 0
		for _, d := range out.Diagnostics {
			if d.Category == cat && d.Message == msg {
				k++
				if cat == "SA1000" {
					vassert(d.MergeIf == strat, "a problem carries the merge strategy its check documents")
				}
			}
		}
		return k
	}
	var wantFiles []string
	nWarn := 0
	nDiag := 0
	for i, r := range rs {
		analysed := !r.failed && !r.skipped && r.initial
		switch {
		case r.failed:
			cat, msg := "compile", "boom "+names[i]
			if r.errKind == 1 {
				msg = "undefined: x " + names[i]
			} else if r.errKind == 2 {
				cat, msg = "config", "bad config "+names[i]
			}
			vassert(has(cat, msg) == 1, "the errors of a failed package are reported exactly once, whether or not the package was named on the command line")
			nDiag++
		case r.skipped:
			nWarn++
		}
		if analysed {
			wantFiles = append(wantFiles, r.file)
		}
		k := has("SA1000", "problem in "+names[i])
		if analysed && r.enabled {
			vassert(k == 1, "an enabled problem of an analysed package is reported exactly once")
			nDiag++
		} else {
			vassert(k == 0, "a problem is reported for a package that was not analysed or for a disabled check")
		}
	}
	vassert(len(out.Diagnostics) == nDiag, "lint reports a problem that no result accounts for")
	vassert(len(out.Warnings) == nWarn, "one warning per skipped package")
	vassert(len(out.CheckedFiles) == len(wantFiles), "the checked files are the files of exactly the analysed packages")
	for i := range wantFiles {
		if i < len(out.CheckedFiles) {
			vassert(out.CheckedFiles[i] == wantFiles[i], "the checked files are the files of exactly the analysed packages")
		}
	}
	vreach("end")
}

func Harness_C11_lint_results2() { c11LintLoop(2) }

func Harness_C11_lint_results3() { c11LintLoop(3) }
