package lintcmd

// C11 (formats): the text and stylish formatters render the same set of
// problems. Real code: Command.printDiagnostics (sorting, de-duplication,
// severity handling), textFormatter, stylishFormatter (text/tabwriter
// interpreted), relativePositionString.
// Enumerated by forking: per problem whether it has a position (problems
// without one come from patterns that match nothing, failed packages, ...),
// its file and line, whether it is ignored.

import "strings"

func c11Formats2(n int) {
	var diags []diagnostic
	shown := make([]bool, n)
	for i := 0; i < n; i++ {
		var d diagnostic
		d.Category = "SA1000"
		d.Message = "problem-" + string(rune('a'+i))
		switch c11Choose(3) {
		case 0: // no position
		case 1:
			d.Position.Filename, d.Position.Line, d.Position.Column = "/src/a.go", 1+c11Choose(2), 1
		case 2:
			d.Position.Filename, d.Position.Line, d.Position.Column = "/src/b.go", 3, 2
		}
		if nondetBool() {
			d.Severity = severityIgnored
		} else {
			shown[i] = true
		}
		diags = append(diags, d)
	}
	var cs []*lintAnalyzer
	for _, a := range c11Analyzers {
		cs = append(cs, c11Analyzer(a))
	}
	outs := map[string]string{}
	for _, format := range []string{"text", "stylish"} {
		cmd := &Command{}
		cmd.flags.formatter = format
		in := append([]diagnostic(nil), diags...)
		vcapture()
		cmd.printDiagnostics(cs, in)
		outs[format] = vcaptured()
	}
	for i := 0; i < n; i++ {
		msg := "problem-" + string(rune('a'+i))
		want := 0
		if shown[i] {
			want = 1
		}
		vassert(strings.Count(outs["text"], msg) == want, "the text formatter prints every non-ignored problem exactly once")
		vassert(strings.Count(outs["stylish"], msg) == want, "the stylish formatter prints the same problems as the text formatter")
	}
	vreach("end")
}

func Harness_C11_formats_2() { c11Formats2(2) }
func Harness_C11_formats_3() { c11Formats2(3) }
