package main

// C19 (structlayout half, padding reconstruction): the field list printed
// by structlayout (cmd/structlayout.sizes) covers the struct's full size
// [0, Sizeof) without gaps or overlaps, and every reported field start is
// the compiler's offset. Reference: go/types' gcSizes.
// gcsizes.ForArch reads go/build's default context; in the symbolic run it
// is replaced by the amd64 value it returns on this platform.

import (
	"go/types"

	"honnef.co/go/tools/go/gcsizes"
	st "honnef.co/go/tools/structlayout"
)

//verif:stub honnef.co/go/tools/go/gcsizes.ForArch c19ForArch
func c19ForArch(arch string) *gcsizes.Sizes { return &gcsizes.Sizes{WordSize: 8, MaxAlign: 8} }

var c19Kinds = []types.BasicKind{types.Int8, types.Int16, types.Int32, types.Int64, types.Complex64, types.String}

func c19LStruct(depth, maxFields int) *types.Struct {
	n := vchoose(maxFields + 1)
	var fields []*types.Var
	for i := 0; i < n; i++ {
		fields = append(fields, types.NewField(0, nil, string(rune('a'+i)), c19LType(depth), false))
	}
	return types.NewStruct(fields, nil)
}

func c19LType(depth int) types.Type {
	n := len(c19Kinds) + 1
	if depth > 0 {
		n += 2
	}
	k := vchoose(n)
	switch {
	case k < len(c19Kinds):
		return types.Typ[c19Kinds[k]]
	case k == len(c19Kinds):
		return types.NewArray(types.Typ[c19Kinds[vchoose(3)*2]], int64(vchoose(3))) // [0..2] of int8/int32/complex64
	case k == len(c19Kinds)+1:
		return c19LStruct(depth-1, 2)
	default:
		return types.NewStruct(nil, nil) // struct{}
	}
}

// quick variant: an int64 or a small nested struct first, then a basic/array/empty-struct field, optionally a third basic field
func c19LSmall() types.Type {
	switch vchoose(4) {
	case 0:
		return types.Typ[types.Int8]
	case 1:
		return types.Typ[types.Int64]
	case 2:
		return types.NewArray(types.Typ[types.Int32], 0)
	}
	return types.NewStruct(nil, nil)
}

func Harness_C19_layout_nested2q() {
	var first types.Type = types.Typ[types.Int64]
	if nondetBool() {
		var fs []*types.Var
		n := vchoose(3)
		for i := 0; i < n; i++ {
			fs = append(fs, types.NewField(0, nil, string(rune('x'+i)), c19LSmall(), false))
		}
		first = types.NewStruct(fs, nil)
	}
	second := c19LType(0)
	if nondetBool() {
		second = types.NewStruct(nil, nil)
	}
	fields := []*types.Var{
		types.NewField(0, nil, "a", first, false),
		types.NewField(0, nil, "b", second, false),
	}
	if nondetBool() {
		// the nested struct second: at a non-zero offset
		fields[0], fields[1] = fields[1], fields[0]
	}
	if nondetBool() {
		fields = append(fields, types.NewField(0, nil, "c", types.Typ[c19Kinds[vchoose(len(c19Kinds))]], false))
	}
	c19LayoutOf(types.NewStruct(fields, nil))
}

func c19Layout(depth, maxFields int) {
	c19LayoutOf(c19LStruct(depth, maxFields))
}

func c19LayoutOf(t *types.Struct) {
	vassume(t.NumFields() > 0)
	vassume(t.NumFields() > 0)
	ref := types.SizesFor("gc", "amd64")
	out := sizes(t, "T", 0, nil)
	total := ref.Sizeof(t)
	pos := int64(0)
	for _, f := range out {
		vassert(f.Start == pos, "reported fields are contiguous: no gap, no overlap")
		vassert(f.End == f.Start+f.Size, "End = Start + Size")
		vassert(f.Size >= 0, "sizes are non-negative")
		pos = f.End
	}
	vassert(pos == total, "the reported fields cover exactly the struct's size")
	vobserve("n", len(out))
	vobserve("total", total)
	vreach("end")
}

var _ = st.Field{}

func Harness_C19_layout_flat3()   { c19Layout(0, 3) }
func Harness_C19_layout_nested2() { c19Layout(1, 2) }
func Harness_C19_layout_nested3() { c19Layout(1, 3) }

// quick variant with nesting depth 2: a struct nested inside a struct that
// itself sits at a non-zero offset
func Harness_C19_layout_deep2q() {
	small := func(name string) *types.Var { return types.NewField(0, nil, name, c19LSmall(), false) }
	inner := types.NewStruct([]*types.Var{small("x"), small("y")}, nil)
	mid := []*types.Var{small("c"), types.NewField(0, nil, "d", inner, false)}
	if nondetBool() {
		mid = append(mid, small("e"))
	}
	if nondetBool() {
		mid[0], mid[1] = mid[1], mid[0]
	}
	fields := []*types.Var{small("a"), types.NewField(0, nil, "b", types.NewStruct(mid, nil), false)}
	if nondetBool() {
		fields = append(fields, small("f"))
	}
	c19LayoutOf(types.NewStruct(fields, nil))
}
