package main

// C19 (optimize half): structlayout-optimize outputs a permutation of the
// input fields that is a valid layout and whose padded size is never larger
// than the padded size of the input order.
//
// Symbolic: every field's size (multiple of its alignment, < 2^12 units) and
// alignment (1,2,4,8 — enumerated by forking, because the code divides by it).
// Real code executed: optimize (sort.Sort + byAlignAndSize), pad, offsetsof,
// align, size.

import st "honnef.co/go/tools/structlayout"

func c19Fields(n int) []st.Field { return c19FieldsK(n, 1<<24) }

func c19FieldsK(n int, kmax int64) []st.Field {
	fs := make([]st.Field, n)
	for i := range fs {
		sh := int(nondetUint8())
		vassume(sh <= 3)
		a := int64(1) << uint(vconcrete(sh))
		k := nondetInt64()
		vassume(k >= 0)
		vassume(k < kmax)
		fs[i].Size = k * a // a type's size is a multiple of its alignment ...
		if i == n-1 && nondetBool() {
			// ... except that structlayout reports a struct's trailing zero-size
			// field with size 1 (the byte gc adds) and its real alignment. Such a
			// field is the last field of the input.
			fs[i].Size = 1
		}
		fs[i].Align = a
		fs[i].Name = string(rune('a' + i))
	}
	return fs
}

func c19CheckLayout(out []st.Field, in []st.Field) {
	pos := int64(0)
	maxAlign := int64(1)
	seen := 0
	for _, f := range out {
		vassert(f.Start == pos, "fields are contiguous (no gap, no overlap)")
		vassert(f.End == f.Start+f.Size, "End = Start + Size")
		vassert(f.Size >= 0, "non-negative size")
		pos = f.End
		if f.IsPadding {
			continue
		}
		seen++
		vassert(f.Start%f.Align == 0, "field start is aligned")
		if f.Align > maxAlign {
			maxAlign = f.Align
		}
		// permutation: the field with this name must be an unchanged input field
		found := 0
		for _, g := range in {
			if g.Name == f.Name {
				found++
				vassert(g.Size == f.Size, "size preserved")
				vassert(g.Align == f.Align, "alignment preserved")
			}
		}
		vassert(found == 1, "output field is an input field")
	}
	vassert(seen == len(in), "every input field appears exactly once")
	vassert(pos%maxAlign == 0, "total size is a multiple of the struct alignment")
}

func c19Optimize(n int) { c19OptimizeK(n, 1<<24) }

func c19OptimizeK(n int, kmax int64) {
	fs := c19FieldsK(n, kmax)
	orig := append([]st.Field(nil), fs...)
	before := size(pad(append([]st.Field(nil), fs...)))
	optimize(fs)
	out := pad(fs)
	after := size(out)
	vobserve("before", before)
	vobserve("after", after)
	c19CheckLayout(out, orig)
	vassert(after <= before, "optimized layout is never larger than the original")
	vreach("end")
}

func Harness_C19_optimize_n1() { c19Optimize(1) }
func Harness_C19_optimize_n2() { c19Optimize(2) }
func Harness_C19_optimize_n3() { c19Optimize(3) }
func Harness_C19_optimize_n4() { c19OptimizeK(4, 64) }

// default mode (without -r): the flat field list of a struct is first
// combined into one entry per top-level field (combine), then optimized.
// For a struct without nested structs combine must be the identity on the
// non-padding fields, so the result obeys the same clauses.
func c19Combine(n int) {
	fs := c19Fields(n)
	for i := range fs {
		fs[i].Name = "T." + fs[i].Name
	}
	in := pad(append([]st.Field(nil), fs...)) // the layout structlayout prints, with padding entries
	before := size(in)
	comb := combine(in)
	var fields []st.Field
	for _, f := range comb {
		if !f.IsPadding {
			fields = append(fields, f)
		}
	}
	optimize(fields)
	out := pad(fields)
	after := size(out)
	vobserve("before", before)
	vobserve("after", after)
	c19CheckLayout(out, fs)
	vassert(after <= before, "optimized layout (default mode, fields combined) is never larger than the original")
	vreach("end")
}

func Harness_C19_combine_n2() { c19Combine(2) }
func Harness_C19_combine_n3() { c19Combine(3) }
