package gcsizes

// C19 (structlayout half, sizes): go/gcsizes Sizeof / Alignof / Offsetsof
// agree with the gc compiler's layout rules on amd64, for every struct
// skeleton with up to 3 fields drawn from basic kinds, pointer, string,
// slice, interface, arrays (length symbolic or small), nested and empty
// structs, named types. Reference: go/types' own gcSizes
// (types.SizesFor("gc","amd64")), executed by the same engine.

import "go/types"

func c19Choose(n int) int { return vchoose(n) }

var c19Basics = []types.BasicKind{types.Bool, types.Int8, types.Int16, types.Int32, types.Int64, types.Uintptr,
	types.Float32, types.Float64, types.Complex64, types.Complex128, types.String, types.UnsafePointer}

func c19Struct(depth, maxFields int, small bool) *types.Struct {
	n := c19Choose(maxFields + 1)
	var fields []*types.Var
	for i := 0; i < n; i++ {
		fields = append(fields, types.NewField(0, nil, string(rune('a'+i)), c19Type(depth, small), false))
	}
	return types.NewStruct(fields, nil)
}

// the reduced menu used inside arrays and nested structs
var c19Small = []types.BasicKind{types.Int8, types.Int32, types.Int64, types.Complex64, types.String}

// c19Type picks a field type; depth bounds the nesting of arrays/structs.
func c19Type(depth int, small bool) types.Type {
	if small && depth == 0 {
		return types.Typ[c19Small[c19Choose(len(c19Small))]]
	}
	nLeaf := len(c19Basics) + 3
	n := nLeaf
	if depth > 0 {
		n += 4
	}
	k := c19Choose(n)
	switch {
	case k < len(c19Basics):
		return types.Typ[c19Basics[k]]
	case k == len(c19Basics):
		return types.NewPointer(types.Typ[types.Int8])
	case k == len(c19Basics)+1:
		return types.NewSlice(types.Typ[types.Int8])
	case k == len(c19Basics)+2:
		return types.NewInterfaceType(nil, nil)
	case k == nLeaf:
		// array with symbolic length
		ln := int64(nondetUint16()) // 0 <= ln < 65536
		return types.NewArray(c19Type(0, true), ln)
	case k == nLeaf+1:
		// array of structs / nested arrays with a small concrete length
		return types.NewArray(c19Type(depth-1, true), int64(c19Choose(3)))
	case k == nLeaf+2:
		return c19Struct(depth-1, 2, true)
	default:
		// named type wrapping a struct
		obj := types.NewTypeName(0, nil, "N", nil)
		return types.NewNamed(obj, c19Struct(depth-1, 2, true), nil)
	}
}

func c19Compare(depth, maxFields int) {
	st := c19Struct(depth, maxFields, false)
	ours := &Sizes{WordSize: 8, MaxAlign: 8}
	ref := types.SizesFor("gc", "amd64")
	var fields []*types.Var
	for i := 0; i < st.NumFields(); i++ {
		fields = append(fields, st.Field(i))
	}
	wantOff := ref.Offsetsof(fields)
	gotOff := ours.Offsetsof(fields)
	for i := range fields {
		vassert(gotOff[i] == wantOff[i], "field offset equals the compiler's")
		vassert(ours.Sizeof(fields[i].Type()) == ref.Sizeof(fields[i].Type()), "field size equals the compiler's")
		vassert(ours.Alignof(fields[i].Type()) == ref.Alignof(fields[i].Type()), "field alignment equals the compiler's")
	}
	vassert(ours.Sizeof(st) == ref.Sizeof(st), "struct size equals the compiler's")
	vassert(ours.Alignof(st) == ref.Alignof(st), "struct alignment equals the compiler's")
	vobserve("size", ours.Sizeof(st))
	vreach("end")
}

func Harness_C19_gcsizes_flat3()   { c19Compare(0, 3) }
func Harness_C19_gcsizes_nested1() { c19Compare(1, 1) }
func Harness_C19_gcsizes_nested2() { c19Compare(1, 2) }
func Harness_C19_gcsizes_nested3() { c19Compare(1, 3) }
func Harness_C19_gcsizes_deep2()   { c19Compare(2, 2) }
