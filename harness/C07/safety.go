package unused

// C07: U1000 is bracketed by two facts that do not depend on its own rules.
//   (a) deletion safety: removing every object it reports, together with the
//       objects they own (Result.Quiet), leaves a package that still
//       type-checks (go/types is the oracle, executed inside the engine);
//   (b) every unexported package-level function, type, variable or constant
//       that no identifier refers to (types.Info.Uses) is reported.
// Programs: the skeleton of ../C17/ugen.go with every combination of
// reference forms in the chosen slots.

import (
	"go/ast"
	"go/token"
	"go/types"
	"strings"
)

func c07Check(slots [ugNSlots]int) {
	a := ugBase(slots)

	// (b) zero-reference objects
	referenced := map[types.Object]bool{}
	for _, obj := range a.info.Uses {
		referenced[obj] = true
	}
	scope := a.pkg.Scope()
	for _, name := range scope.Names() {
		obj := scope.Lookup(name)
		if token.IsExported(name) || name == "_" || name == "init" || name == "main" {
			continue
		}
		switch obj.(type) {
		case *types.Func, *types.TypeName, *types.Var, *types.Const:
		default:
			continue
		}
		if referenced[obj] {
			continue
		}
		if _, isConst := obj.(*types.Const); isConst && c07InGroup(a, obj) {
			continue // the clause speaks of stand-alone constants (rule 10.1 keeps groups together)
		}
		k := a.prog.key(a.fset.Position(obj.Pos()), name)
		vassert(a.verdict[k] == 2, "an unexported package-level object that no identifier refers to is not reported: "+name)
	}

	// (a') every reference form declares only what it then uses, so nothing
	// declared inside the exported (used) function may be reported: removing
	// it would break the statement it belongs to. (Deletion below works at
	// line granularity and would remove the whole statement.)
	for k, v := range a.verdict {
		if v == 2 && k.chunk >= 0 && ugSkeleton[k.chunk].name == "Exported" && k.line > 0 {
			vassert(false, "an object declared and needed inside a used function is reported: "+k.name)
		}
	}

	// (a) deletion safety
	del := map[[2]int]bool{}
	ndel := 0
	for k, v := range a.verdict {
		if v == 1 || k.chunk < 0 {
			continue
		}
		if k.line == 0 {
			if ugSkeleton[k.chunk].name == k.name {
				del[[2]int{k.chunk, -1}] = true
				ndel++
			}
		} else {
			del[[2]int{k.chunk, k.line}] = true
			ndel++
		}
	}
	b := ugCheck(ugBuild(ugIdentityOrder(), len(ugSkeleton), slots, del), false)
	for _, e := range b.errs {
		if strings.Contains(e, "imported and not used") {
			continue
		}
		// drop the position "a.go:L:C: "
		if i := strings.Index(e, ": "); i >= 0 {
			e = e[i+2:]
		}
		vassert(false, "removing the reported objects leaves a package that does not type-check: "+e)
	}
	vobserve("deleted", ndel)
	vreach("end")
}

// both slots of Exported
func Harness_C07_exported2() {
	var s [ugNSlots]int
	s[2] = vchoose(len(ugForms))
	s[3] = vchoose(len(ugForms))
	c07Check(s)
}

// f1's slot and one slot of Exported (f1 itself may or may not be referenced)
func Harness_C07_f1_exported() {
	var s [ugNSlots]int
	s[1] = vchoose(len(ugForms))
	s[2] = vchoose(len(ugForms))
	c07Check(s)
}

// the method's slot and both slots of Exported
func Harness_C07_three() {
	var s [ugNSlots]int
	s[0] = vchoose(len(ugForms))
	s[2] = vchoose(len(ugForms))
	s[3] = vchoose(len(ugForms))
	c07Check(s)
}


// c07InGroup reports whether the constant is declared in a parenthesised
// declaration with more than one specification.
func c07InGroup(a *ugAnalysis, obj types.Object) bool {
	for _, f := range a.files {
		for _, d := range f.Decls {
			gd, ok := d.(*ast.GenDecl)
			if !ok || gd.Tok != token.CONST || !gd.Lparen.IsValid() || len(gd.Specs) < 2 {
				continue
			}
			if gd.Pos() <= obj.Pos() && obj.Pos() < gd.End() {
				return true
			}
		}
	}
	return false
}
